//! C11 (hint fills and read-only iterators) — `fill_args_at_p_with_hint`,
//! `get_propagated_substate_with_hint`, `try_iterate_ps` / `try_iterate_ops` / `iterate_ps` /
//! `iterate_ops` of the real `FastOps`, after random valid mutation histories.
//!
//! One PRNG drives HISTORIES of public mutations (single-slot `mutate_p` through a filled cursor,
//! `mutate_ps`, `mutate_ops`, `set_cutoff`, `mutate_subsection` and `mutate_subsection_ops` (heap branch)
//! under a Varlist cursor built by the hint fill) on a real container.  After every mutation a batch of stateless CASE lines is printed:
//!   hintfill <nvars> <slots> <vars> <p:hints>/<p:hints>…   | <last_p> <items> <unfilled> <eq|ne|NA>
//!   hintsub  <nvars> <slots> <p> <vars> <hints> <state> <sub0> | <bits> <eq|ne|NA>
//!   iterps   <nvars> <slots> <ps> <pe> <stop>              | <st> <log> <st> <log> <eq|ne|NA>
//!   iterops  <nvars> <slots> <ps> <pe> <stop>              | <st> <log> <st> <log> <eq|ne|NA>
//!   recycle  <nvars> <slots> <A|H|E> <vars|*> <p> <hints>  | <last_p> <items> <unfilled> <eq|ne|NA>
//!   counts   <nbonds> <+b,-b,… counter events so far>      | bc:<bond_counters> gc:<get_count(0..len+2)>
//! (`recycle`: args prepared at p and handed back through get_empty_args(SubvarAccess::Args) + fill_args_at_p again;
//! the histories also MUTATE with such recycled args; after every mutation every getter is compared with a scan)
//! The oracle column is computed here from `get_pth(0..cutoff)` only (naive scans), never from the model.

use qmc::sse::fast_ops::{FastOp, FastOps};
use qmc::sse::*;
use std::collections::BTreeMap;
use vh::*;

#[derive(Clone, Debug, PartialEq, Eq)]
struct OpS {
    bond: usize,
    vars: Vec<usize>,
    ins: Vec<bool>,
    outs: Vec<bool>,
    diag: bool,
    constant: bool,
}

impl OpS {
    fn to_op(&self) -> FastOp {
        if self.diag {
            FastOp::diagonal(self.vars.clone(), self.bond, self.ins.clone(), self.constant)
        } else {
            FastOp::offdiagonal(self.vars.clone(), self.bond, self.ins.clone(), self.outs.clone(), self.constant)
        }
    }
}

type Stats = BTreeMap<String, u64>;
fn bump(st: &mut Stats, k: &str) {
    *st.entry(k.to_string()).or_insert(0) += 1;
}

// ---------------------------------------------------------------------------------------------
// naive view of the real container: `get_pth` over all slots, nothing else
// ---------------------------------------------------------------------------------------------

#[derive(Clone, Debug)]
struct SOp {
    bond: usize,
    vars: Vec<usize>,
    ins: Vec<bool>,
    outs: Vec<bool>,
    shown: String,
}

fn scan(c: &FastOps) -> Vec<Option<SOp>> {
    (0..c.get_cutoff())
        .map(|p| {
            c.get_pth(p).map(|o| SOp {
                bond: o.get_bond(),
                vars: o.get_vars().to_vec(),
                ins: o.get_inputs().to_vec(),
                outs: o.get_outputs().to_vec(),
                shown: show_op(o),
            })
        })
        .collect()
}

fn relv_of(o: &SOp, v: usize) -> Option<usize> {
    o.vars.iter().position(|x| *x == v)
}
fn has_var(s: &[Option<SOp>], p: usize, v: usize) -> bool {
    p < s.len() && s[p].as_ref().map(|o| o.vars.contains(&v)).unwrap_or(false)
}
fn prev_occ(s: &[Option<SOp>], p: usize) -> Option<usize> {
    (0..p.min(s.len())).rev().find(|q| s[*q].is_some())
}
/// last op strictly before `p` touching `v`, with the relative index of `v`
fn prev_var(s: &[Option<SOp>], p: usize, v: usize) -> Option<(usize, usize)> {
    (0..p.min(s.len())).rev().find_map(|q| s[q].as_ref().and_then(|o| relv_of(o, v).map(|r| (q, r))))
}
fn first_var(s: &[Option<SOp>], v: usize) -> Option<(usize, usize)> {
    (0..s.len()).find_map(|q| s[q].as_ref().and_then(|o| relv_of(o, v).map(|r| (q, r))))
}
fn last_var(s: &[Option<SOp>], v: usize) -> Option<(usize, usize)> {
    prev_var(s, s.len(), v)
}

// ---------------------------------------------------------------------------------------------
// reading the private cursor through its derived Debug text
// ---------------------------------------------------------------------------------------------

#[derive(Clone, Debug, PartialEq, Eq)]
struct CurObs {
    last_p: Option<usize>,
    lv: Vec<Option<usize>>,
    lr: Vec<Option<usize>>,
    unfilled: usize,
}

fn dbg_opt(s: &str) -> Option<usize> {
    let s = s.trim();
    if s == "None" {
        None
    } else {
        let inner = s.strip_prefix("Some(").and_then(|x| x.strip_suffix(')')).unwrap_or_else(|| panic!("cannot parse Debug option {:?}", s));
        Some(inner.trim().parse().unwrap_or_else(|_| panic!("cannot parse Debug option {:?}", s)))
    }
}
fn dbg_field<'a>(s: &'a str, start: &str, end: &str) -> &'a str {
    let i = s.find(start).unwrap_or_else(|| panic!("Debug text lacks {:?}: {}", start, s)) + start.len();
    let j = s[i..].find(end).unwrap_or_else(|| panic!("Debug text lacks {:?}: {}", end, s)) + i;
    &s[i..j]
}
fn dbg_list(s: &str) -> Vec<Option<usize>> {
    let inner = s.trim().strip_prefix('[').and_then(|x| x.strip_suffix(']')).unwrap_or_else(|| panic!("cannot parse Debug list {:?}", s));
    if inner.trim().is_empty() {
        vec![]
    } else {
        inner.split(',').map(dbg_opt).collect()
    }
}
fn parse_args_debug(s: &str) -> CurObs {
    let flat: String = s.split_whitespace().collect::<Vec<_>>().join(" ");
    let last_p = dbg_opt(dbg_field(&flat, "last_p: ", ", last_vars: "));
    let lv = dbg_list(dbg_field(&flat, "last_vars: ", ", last_rels: "));
    let lr = dbg_list(dbg_field(&flat, "last_rels: ", ", subvar_mapping: "));
    let unf = dbg_field(&flat, "unfilled: ", " }").trim().trim_end_matches(',').trim();
    CurObs { last_p, lv, lr, unfilled: unf.parse().unwrap_or_else(|_| panic!("cannot parse unfilled in {}", flat)) }
}

fn f_ou(x: Option<usize>) -> String {
    x.map(|v| v.to_string()).unwrap_or_else(|| "_".into())
}
fn show_hints(h: &[Option<usize>]) -> String {
    if h.is_empty() {
        "-".into()
    } else {
        h.iter().map(|x| f_ou(*x)).collect::<Vec<_>>().join(",")
    }
}
fn show_items(c: &CurObs) -> String {
    if c.lv.is_empty() {
        return "-".into();
    }
    c.lv.iter()
        .zip(c.lr.iter())
        .map(|(a, b)| if a.is_none() && b.is_none() { "_".to_string() } else { format!("{}.{}", f_ou(*a), f_ou(*b)) })
        .collect::<Vec<_>>()
        .join(",")
}

// ---------------------------------------------------------------------------------------------
// generation of histories
// ---------------------------------------------------------------------------------------------

struct Hist {
    nvars: usize,
    nb: Option<usize>,
    bondlim: usize,
    cap: usize,
    len: usize,
}

fn rand_vars(g: &mut SplitMix64, pool: &[usize], k: usize) -> Vec<usize> {
    let mut pool = pool.to_vec();
    let mut out = vec![];
    for _ in 0..k.min(pool.len()) {
        let i = g.below(pool.len() as u64) as usize;
        out.push(pool.remove(i));
    }
    out
}
fn rand_bits(g: &mut SplitMix64, k: usize) -> Vec<bool> {
    (0..k).map(|_| g.coin()).collect()
}
fn op_on(g: &mut SplitMix64, h: &Hist, vars: Vec<usize>) -> OpS {
    let k = vars.len();
    let ins = rand_bits(g, k);
    let diag = g.coin();
    let outs = if diag { ins.clone() } else { rand_bits(g, k) };
    OpS { bond: g.below(h.bondlim as u64) as usize, vars, ins, outs, diag, constant: g.chance(1, 3) }
}
fn rand_op(g: &mut SplitMix64, h: &Hist, pool: &[usize]) -> OpS {
    let k = match g.below(100) {
        0..=44 => 1,
        45..=84 => 2,
        _ => 3,
    };
    let vars = rand_vars(g, pool, k);
    op_on(g, h, vars)
}

/// what a sweep callback answers at one position
#[derive(Clone, Debug)]
enum Act {
    K,
    R,
    S(OpS),
}
impl Act {
    fn ret(&self) -> Option<Option<FastOp>> {
        match self {
            Act::K => None,
            Act::R => Some(None),
            Act::S(o) => Some(Some(o.to_op())),
        }
    }
}

fn act_for(g: &mut SplitMix64, h: &Hist, old: Option<&SOp>, pool: &[usize], allow_r: bool, dense: bool) -> Act {
    if pool.is_empty() {
        return Act::K;
    }
    match old {
        Some(o) => match g.below(10) {
            0..=2 if allow_r => Act::R,
            3..=4 => Act::S(op_on(g, h, o.vars.clone())), // same variables: the fast path
            5..=6 => Act::S(rand_op(g, h, pool)),
            _ => Act::K,
        },
        None => {
            if g.chance(if dense { 6 } else { 3 }, 10) {
                Act::S(rand_op(g, h, pool))
            } else {
                Act::K
            }
        }
    }
}

/// one random public mutation inside the valid domain of the container
fn mutate(g: &mut SplitMix64, h: &Hist, c: &mut FastOps, st: &mut Stats) -> Result<(), String> {
    let s = scan(c);
    let len = s.len();
    let all: Vec<usize> = (0..h.nvars).collect();
    let occ = s.iter().filter(|x| x.is_some()).count();
    let dense = occ * 2 < len;
    if len == 0 || (len < h.cap && g.chance(1, 12)) {
        let k = len + 1 + g.below(((h.cap - len).min(8)) as u64) as usize;
        c.set_cutoff(k);
        bump(st, "mut_cutoff");
        return Ok(());
    }
    match g.below(13) {
        10..=12 => return mutate_recycled(g, h, c, &s, st),
        0..=3 => {
            // single slot through a filled cursor
            let p = g.below(len as u64) as usize;
            let act = act_for(g, h, s[p].as_ref(), &all, true, true);
            let a = c.get_empty_args(SubvarAccess::All);
            let a = c.fill_args_at_p(p, a);
            let (_, a) = c.mutate_p(|_, _, t| (act.ret(), t), p, (), a);
            c.return_args(a);
            bump(st, "mut_set");
        }
        4..=6 => {
            let a = g.below(len as u64) as usize;
            let b = g.below(len as u64 + 1) as usize;
            let (ps, pe) = if a <= b { (a, b) } else { (b, a) };
            let acts: Vec<Act> = (ps..pe).map(|p| act_for(g, h, s[p].as_ref(), &all, true, dense)).collect();
            c.mutate_ps(ps, pe, 0usize, |_, _op, i| (acts[i].ret(), i + 1));
            bump(st, "mut_ps");
        }
        7 => {
            let a = g.below(len as u64) as usize;
            let b = g.below(len as u64) as usize;
            let (ps, pe) = if a <= b { (a, b) } else { (b, a) };
            let acts: Vec<Act> = (ps..=pe).map(|p| if s[p].is_some() { act_for(g, h, s[p].as_ref(), &all, false, dense) } else { Act::K }).collect();
            c.mutate_ops(ps, pe, (), |_, _op, p, t| (acts[p - ps].ret(), t));
            bump(st, "mut_ops");
        }
        _ => {
            // sub-variable sweep whose cursor is built by the hint fill (RVB's sequence)
            let k = 1 + g.below(h.nvars.min(3) as u64) as usize;
            let vars = rand_vars(g, &all, k);
            let a = g.below(len as u64) as usize;
            let b = g.below(len as u64 + 1) as usize;
            let (ps, pe) = if a <= b { (a, b) } else { (b, a) };
            let hints = valid_hints(g, &s, &vars, ps);
            let is_ops = g.coin();
            let acts: Vec<Act> = (ps..=pe)
                .map(|p| {
                    let old = if p < len { s[p].as_ref() } else { None };
                    let elig = old.map(|o| o.vars.iter().all(|v| vars.contains(v))).unwrap_or(true);
                    if !elig || (is_ops && old.is_none()) || (!is_ops && p == pe) {
                        Act::K
                    } else {
                        act_for(g, h, old, &vars, true, dense)
                    }
                })
                .collect();
            let mut args = c.get_empty_args(SubvarAccess::Varlist(&vars));
            c.fill_args_at_p_with_hint(ps, &mut args, &vars, hints.iter().cloned());
            if is_ops {
                // the heap branch of mutate_subsection_ops (pend inclusive)
                c.mutate_subsection_ops(ps, pe, (), |_, _op, p, t| (acts[p - ps].ret(), t), Some(args));
                bump(st, "mut_subops_hint_heap");
            } else {
                c.mutate_subsection(ps, pe, 0usize, |_, _op, i| (acts[i].ret(), i + 1), Some(args));
                bump(st, "mut_subps_hint");
            }
        }
    }
    Ok(())
}

/// The "complete whatever is still open" idiom: args prepared at `ps` (all variables + fill_args_at_p, or a Varlist +
/// fill_args_at_p_with_hint with all or only some of the hints) are handed back through
/// `get_empty_args(SubvarAccess::Args(args))` + `fill_args_at_p(ps, args)` and THEN used for a mutation
/// (mutate_p / mutate_subsection / mutate_subsection_ops).  Err = an oracle verdict (real code only): the recycled
/// cursor differs from the scan cursor before the mutation runs, or the contents afterwards are not the expected ones.
fn mutate_recycled(g: &mut SplitMix64, h: &Hist, c: &mut FastOps, s: &[Option<SOp>], st: &mut Stats) -> Result<(), String> {
    let len = s.len();
    let all: Vec<usize> = (0..h.nvars).collect();
    let occ: Vec<usize> = (0..len).filter(|p| s[*p].is_some()).collect();
    let dense = occ.len() * 2 < len;
    // 0 = all variables, 1 = Varlist + full hint fill, 2 = Varlist + hint fill with fewer hints (unresolved entries left)
    let route = g.below(3);
    let vars: Vec<usize> = if route == 0 {
        all.clone()
    } else {
        let k = 1 + g.below(h.nvars.min(3) as u64) as usize;
        rand_vars(g, &all, k)
    };
    let ps = match g.below(6) {
        0 => 0,
        1 | 2 if !occ.is_empty() => *g.pick(&occ),
        _ => g.below(len as u64) as usize,
    };
    let pe = ps + g.below((len - ps) as u64 + 1) as usize;
    let kind = g.below(3); // 0 mutate_p, 1 mutate_subsection, 2 mutate_subsection_ops
    // prepare
    let args = if route == 0 {
        let a = c.get_empty_args(SubvarAccess::All);
        c.fill_args_at_p(ps, a)
    } else {
        let mut hints = valid_hints(g, s, &vars, ps);
        if route == 2 {
            let n = g.below(vars.len() as u64) as usize;
            hints.truncate(n);
        }
        let mut a = c.get_empty_args(SubvarAccess::Varlist(&vars));
        c.fill_args_at_p_with_hint(ps, &mut a, &vars, hints.iter().cloned());
        a
    };
    let first = parse_args_debug(&format!("{:?}", args));
    // recycle
    let args = c.get_empty_args(SubvarAccess::Args(args));
    let args = c.fill_args_at_p(ps, args);
    let cur = parse_args_debug(&format!("{:?}", args));
    bump(st, &format!("mut_recycled_route{}_kind{}{}", route, kind, if ps == 0 { "_p0" } else { "" }));
    if cur.unfilled > 0 {
        bump(st, "mut_recycled_with_open_variables");
    }
    // oracle 1: the recycled cursor is the scan cursor at ps (before anything is mutated)
    let want_lv: Vec<Option<usize>> = vars.iter().map(|v| prev_var(s, ps, *v).map(|x| x.0)).collect();
    let want_lr: Vec<Option<usize>> = vars.iter().map(|v| prev_var(s, ps, *v).map(|x| x.1)).collect();
    if cur.last_p != prev_occ(s, ps) || cur.lv != want_lv || cur.lr != want_lr {
        c.return_args(args);
        return Err(format!(
            "recycled args (route {}, vars {:?}, p={}) differ from the scan cursor: last_p {:?} want {:?}; last_vars {:?} want {:?}; last_rels {:?} want {:?}; before recycling: last_p {:?} last_vars {:?}",
            route, vars, ps, cur.last_p, prev_occ(s, ps), cur.lv, want_lv, cur.lr, want_lr, first.last_p, first.lv
        ));
    }
    if route != 2 && (first.last_p, &first.lv, &first.lr) != (cur.last_p, &cur.lv, &cur.lr) {
        c.return_args(args);
        return Err(format!("recycling fully resolved args changed them: {:?} -> {:?}", first, cur));
    }
    // the mutation, and what the slots must look like afterwards
    let shares = |o: &SOp| route == 0 || o.vars.iter().any(|v| vars.contains(v));
    let inside = |o: &SOp| o.vars.iter().all(|v| vars.contains(v));
    let mut expect: Vec<Option<String>> = s.iter().map(|x| x.as_ref().map(|o| o.shown.clone())).collect();
    let mut put = |expect: &mut Vec<Option<String>>, p: usize, a: &Act| match a {
        Act::K => {}
        Act::R => expect[p] = None,
        Act::S(o) => expect[p] = Some(show_op(&o.to_op())),
    };
    match kind {
        0 => {
            let old = s[ps].as_ref();
            let act = if old.map(|o| inside(o)).unwrap_or(true) { act_for(g, h, old, &vars, true, true) } else { Act::K };
            put(&mut expect, ps, &act);
            let (_, a) = c.mutate_p(|_, _, t| (act.ret(), t), ps, (), args);
            c.return_args(a);
        }
        1 => {
            let acts: Vec<Act> = (ps..pe)
                .map(|p| {
                    let old = s[p].as_ref();
                    if old.map(|o| inside(o)).unwrap_or(true) {
                        act_for(g, h, old, &vars, true, dense)
                    } else {
                        Act::K
                    }
                })
                .collect();
            for (i, a) in acts.iter().enumerate() {
                put(&mut expect, ps + i, a);
            }
            c.mutate_subsection(ps, pe, 0usize, |_, _op, i| (acts[i].ret(), i + 1), Some(args));
        }
        _ => {
            // pend inclusive; the all-variables branch must not remove (it unwraps the node after the call)
            let pe = pe.min(len - 1);
            let acts: Vec<Act> = (ps..=pe)
                .map(|p| match s[p].as_ref() {
                    Some(o) if shares(o) && inside(o) => act_for(g, h, Some(o), &vars, route != 0, dense),
                    _ => Act::K,
                })
                .collect();
            for (i, a) in acts.iter().enumerate() {
                put(&mut expect, ps + i, a);
            }
            c.mutate_subsection_ops(ps, pe, (), |_, _op, p, t| (acts[p - ps].ret(), t), Some(args));
        }
    }
    // oracle 2: contents after the mutation
    let after: Vec<Option<String>> = scan(c).iter().map(|x| x.as_ref().map(|o| o.shown.clone())).collect();
    if after != expect {
        return Err(format!("after a mutation with recycled args (route {}, kind {}, ps={}, pe={}) the slots are {:?}, expected {:?}", route, kind, ps, pe, after, expect));
    }
    Ok(())
}

/// every public getter / navigation answer against a scan of `get_pth` (after every mutation of a history)
fn check_against_scan(m: &FastOps) -> Result<(), String> {
    let cutoff = m.get_cutoff();
    let ps: Vec<usize> = (0..cutoff).filter(|p| m.get_pth(*p).is_some()).collect();
    if m.get_n() != ps.len() {
        return Err(format!("get_n {} but {} occupied slots", m.get_n(), ps.len()));
    }
    if m.get_first_p() != ps.first().cloned() || m.get_last_p() != ps.last().cloned() {
        return Err(format!("first/last p {:?}/{:?} vs scan {:?}/{:?}", m.get_first_p(), m.get_last_p(), ps.first(), ps.last()));
    }
    let mut walk = vec![];
    let mut cur = m.get_first_p();
    while let Some(p) = cur {
        walk.push(p);
        if walk.len() > cutoff || p >= cutoff {
            return Err(format!("successor walk does not terminate / leaves the array: {:?}", walk));
        }
        let node = m.get_node_ref(p).ok_or_else(|| format!("successor walk reached empty slot {}", p))?;
        cur = m.get_next_p(node);
    }
    if walk != ps {
        return Err(format!("successor walk {:?} vs scan {:?}", walk, ps));
    }
    let mut walk = vec![];
    let mut cur = m.get_last_p();
    while let Some(p) = cur {
        walk.push(p);
        if walk.len() > cutoff || p >= cutoff {
            return Err(format!("predecessor walk does not terminate / leaves the array: {:?}", walk));
        }
        let node = m.get_node_ref(p).ok_or_else(|| format!("predecessor walk reached empty slot {}", p))?;
        cur = m.get_previous_p(node);
    }
    walk.reverse();
    if walk != ps {
        return Err(format!("predecessor walk {:?} vs scan {:?}", walk, ps));
    }
    for v in 0..m.get_nvars() {
        let on_v: Vec<(usize, usize)> = ps.iter().filter_map(|p| m.get_pth(*p).unwrap().index_of_var(v).map(|r| (*p, r))).collect();
        let f = m.get_first_p_for_var(v).map(|x| (x.p, x.relv));
        let l = m.get_last_p_for_var(v).map(|x| (x.p, x.relv));
        if f != on_v.first().cloned() || l != on_v.last().cloned() || m.does_var_have_ops(v) != !on_v.is_empty() {
            return Err(format!("var {}: first/last {:?}/{:?} vs scan {:?}/{:?}", v, f, l, on_v.first(), on_v.last()));
        }
        let mut walk = vec![];
        let mut cur = m.get_first_p_for_var(v);
        while let Some(prel) = cur {
            walk.push((prel.p, prel.relv));
            if walk.len() > cutoff || prel.p >= cutoff {
                return Err(format!("walk on var {} does not terminate / leaves the array", v));
            }
            let node = m.get_node_ref(prel.p).ok_or_else(|| format!("walk on var {} reached empty slot {}", v, prel.p))?;
            if prel.relv >= node.get_op_ref().get_vars().len() {
                return Err(format!("walk on var {}: relative index {} out of range at {}", v, prel.relv, prel.p));
            }
            cur = m.get_next_p_for_rel_var(prel.relv, node);
        }
        if walk != on_v {
            return Err(format!("walk on var {}: {:?} vs scan {:?}", v, walk, on_v));
        }
        let mut walk = vec![];
        let mut cur = m.get_last_p_for_var(v);
        while let Some(prel) = cur {
            walk.push((prel.p, prel.relv));
            if walk.len() > cutoff || prel.p >= cutoff {
                return Err(format!("backwards walk on var {} does not terminate / leaves the array", v));
            }
            let node = m.get_node_ref(prel.p).ok_or_else(|| format!("backwards walk on var {} reached empty slot {}", v, prel.p))?;
            if prel.relv >= node.get_op_ref().get_vars().len() {
                return Err(format!("backwards walk on var {}: relative index {} out of range at {}", v, prel.relv, prel.p));
            }
            cur = m.get_previous_p_for_rel_var(prel.relv, node);
        }
        walk.reverse();
        if walk != on_v {
            return Err(format!("backwards walk on var {}: {:?} vs scan {:?}", v, walk, on_v));
        }
    }
    for b in 0..16 {
        let want = ps.iter().filter(|p| m.get_pth(**p).unwrap().get_bond() == b).count();
        if m.get_count(b) != want {
            return Err(format!("get_count({}) = {} vs scan {}", b, m.get_count(b), want));
        }
    }
    Ok(())
}

/// hints the callers may give: `None`, or any position (before, at or after `p`) holding an op on the variable
fn valid_hints(g: &mut SplitMix64, s: &[Option<SOp>], vars: &[usize], p: usize) -> Vec<Option<usize>> {
    vars.iter()
        .map(|v| {
            let cands: Vec<usize> = (0..s.len()).filter(|q| has_var(s, *q, *v)).collect();
            if cands.is_empty() || g.chance(3, 10) {
                None
            } else if cands.contains(&p) && g.chance(1, 3) {
                Some(p)
            } else {
                Some(*g.pick(&cands))
            }
        })
        .collect()
}

/// rewrite the in/out bits of every op (same variables: fast path of `mutate_p`) so that the worldlines are
/// consistent with `state` and periodic — what the samplers maintain (`verify(state)`)
fn make_consistent(g: &mut SplitMix64, c: &mut FastOps, state: &[bool]) {
    let s = scan(c);
    let len = s.len();
    let mut rolling = state.to_vec();
    let mut new: Vec<Option<OpS>> = vec![None; len];
    for p in 0..len {
        if let Some(o) = &s[p] {
            let real = c.get_pth(p).unwrap();
            let ins: Vec<bool> = o.vars.iter().map(|v| rolling[*v]).collect();
            let diag = g.coin();
            let outs: Vec<bool> = if diag { ins.clone() } else { rand_bits(g, ins.len()) };
            for (k, v) in o.vars.iter().enumerate() {
                rolling[*v] = outs[k];
            }
            new[p] = Some(OpS { bond: real.get_bond(), vars: o.vars.clone(), ins, outs, diag, constant: real.is_constant() });
        }
    }
    // periodic: the last op on every variable hands back the p = 0 value
    for v in 0..state.len() {
        if let Some((q, r)) = last_var(&s, v) {
            let o = new[q].as_mut().unwrap();
            o.outs[r] = state[v];
            if o.ins != o.outs {
                o.diag = false;
            }
        }
    }
    c.mutate_ps(0, len, 0usize, |_, _op, i| (new[i].as_ref().map(|o| Some(o.to_op())), i + 1));
}

// ---------------------------------------------------------------------------------------------
// the cases
// ---------------------------------------------------------------------------------------------

fn head(h: &Hist, c: &FastOps) -> String {
    format!("{} {}", h.nvars, show_slots(c))
}

/// `fill_args_at_p_with_hint`, one or two fills on the same args
fn case_fill(g: &mut SplitMix64, h: &Hist, c: &mut FastOps, st: &mut Stats) {
    let s = scan(c);
    let len = s.len();
    let all: Vec<usize> = (0..h.nvars).collect();
    let k = match g.below(10) {
        0..=3 => 1,
        4..=6 => 2,
        7..=8 => 3,
        _ => h.nvars,
    };
    let vars = rand_vars(g, &all, k);
    let nfills = if g.chance(1, 5) { 2 } else { 1 };
    // 0 = inside the callers' contract; otherwise one way of leaving it
    let breakage = if g.chance(1, 12) { 1 + g.below(6) } else { 0 };
    let mut fills: Vec<(usize, Vec<Option<usize>>)> = vec![];
    for _ in 0..nfills {
        let occ: Vec<usize> = (0..len).filter(|p| s[*p].is_some()).collect();
        let p = if !occ.is_empty() && g.chance(1, 2) { *g.pick(&occ) } else { g.below(len as u64 + 1) as usize };
        fills.push((p, valid_hints(g, &s, &vars, p)));
    }
    let mut vars = vars;
    let mut contract = true;
    match breakage {
        1 => {
            // a hint to an empty slot
            let emp: Vec<usize> = (0..len).filter(|p| s[*p].is_none()).collect();
            if !emp.is_empty() {
                let i = g.below(vars.len() as u64) as usize;
                fills[0].1[i] = Some(*g.pick(&emp));
                contract = false;
                bump(st, "fill_break_hint_empty_slot");
            }
        }
        2 => {
            // a hint to an op that does not contain the variable
            let i = g.below(vars.len() as u64) as usize;
            let cands: Vec<usize> = (0..len).filter(|p| s[*p].is_some() && !has_var(&s, *p, vars[i])).collect();
            if !cands.is_empty() {
                fills[0].1[i] = Some(*g.pick(&cands));
                contract = false;
                bump(st, "fill_break_hint_wrong_var");
            }
        }
        3 => {
            // fewer hints than variables: `zip` stops early
            let n = g.below(vars.len() as u64) as usize;
            fills[0].1.truncate(n);
            contract = false;
            bump(st, "fill_break_short_hint");
        }
        4 => {
            // p beyond the array
            fills[0].0 = len + 1 + g.below(3) as usize;
            fills[0].1 = valid_hints(g, &s, &vars, fills[0].0);
            contract = false;
            bump(st, "fill_break_p_beyond_len");
        }
        5 => {
            // hint position beyond the array
            let i = g.below(vars.len() as u64) as usize;
            fills[0].1[i] = Some(len + g.below(3) as usize);
            contract = false;
            bump(st, "fill_break_hint_beyond_len");
        }
        6 => {
            // more hints than variables: harmless, `zip` stops at the variables
            fills[0].1.push(if len > 0 { Some(g.below(len as u64) as usize) } else { None });
            bump(st, "fill_long_hint");
        }
        _ => {}
    }
    if vars.is_empty() {
        vars = vec![0];
    }
    let input = format!(
        "hintfill {} {} {}",
        head(h, c),
        list(&vars),
        fills.iter().map(|(p, hs)| format!("{}:{}", p, show_hints(hs))).collect::<Vec<_>>().join("/")
    );
    let res = catch(|| {
        // on a clone: a panicking fill never returns its args, which would exhaust the bounded pool of the container
        let mut c = c.clone();
        let mut args = c.get_empty_args(SubvarAccess::Varlist(&vars));
        for (p, hs) in &fills {
            c.fill_args_at_p_with_hint(*p, &mut args, &vars, hs.iter().cloned());
        }
        let cur = parse_args_debug(&format!("{:?}", args));
        c.return_args(args);
        cur
    });
    let nt = s.iter().any(|x| x.is_some());
    let plast = fills.last().unwrap().0;
    match res {
        Err(_) => {
            bump(st, "fill_panic");
            let verdict = if contract { Err(format!("fill_args_at_p_with_hint panicked inside the callers' contract")) } else { Ok(()) };
            emit(nt, &input, "panic - 0 NA", Some(verdict));
        }
        Ok(cur) => {
            // the naive scan: last op strictly before p per listed variable, last occupied slot before p
            let want_lv: Vec<Option<usize>> = vars.iter().map(|v| prev_var(&s, plast, *v).map(|x| x.0)).collect();
            let want_lr: Vec<Option<usize>> = vars.iter().map(|v| prev_var(&s, plast, *v).map(|x| x.1)).collect();
            let eq = cur.last_p == prev_occ(&s, plast) && cur.lv == want_lv && cur.lr == want_lr;
            let unf_want = vars.iter().filter(|v| first_var(&s, **v).is_some()).count();
            let verdict = if !contract {
                Ok(())
            } else if fills.len() == 1 {
                if !eq {
                    Err(format!(
                        "hint fill at p={} differs from the scan: last_p {:?} want {:?}; last_vars {:?} want {:?}; last_rels {:?} want {:?}",
                        plast,
                        cur.last_p,
                        prev_occ(&s, plast),
                        cur.lv,
                        want_lv,
                        cur.lr,
                        want_lr
                    ))
                } else if cur.unfilled != unf_want {
                    Err(format!("unfilled {} but {} listed variables have ops", cur.unfilled, unf_want))
                } else {
                    Ok(())
                }
            } else {
                // two fills on the same args: an entry is rewritten when the variable has an op at or before the
                // second p, and kept otherwise (scan-level description of the overwrite rule)
                let (p1, p2) = (fills[0].0, fills[1].0);
                let mut bad = None;
                for (i, v) in vars.iter().enumerate() {
                    let second = prev_var(&s, p2, *v);
                    let want = if has_var(&s, p2, *v) || second.is_some() { second } else { prev_var(&s, p1, *v) };
                    if (cur.lv[i], cur.lr[i]) != (want.map(|x| x.0), want.map(|x| x.1)) {
                        bad = Some(format!("two fills p={},{}: entry {} is {:?}.{:?}, want {:?}", p1, p2, i, cur.lv[i], cur.lr[i], want));
                    }
                }
                if cur.last_p != prev_occ(&s, p2) {
                    bad = Some(format!("two fills: last_p {:?} want {:?}", cur.last_p, prev_occ(&s, p2)));
                }
                match bad {
                    Some(m) => Err(m),
                    None => Ok(()),
                }
            };
            bump(st, if eq { "fill_eq_scan" } else { "fill_ne_scan" });
            if fills.len() == 2 {
                bump(st, "fill_two_on_same_args");
            }
            let out = format!("{} {} {} {}", f_ou(cur.last_p), show_items(&cur), cur.unfilled, if eq { "eq" } else { "ne" });
            emit(nt, &input, &out, Some(verdict));
        }
    }
}

/// `get_propagated_substate_with_hint`
fn case_sub(g: &mut SplitMix64, h: &Hist, c: &mut FastOps, state: &[bool], consistent: bool, st: &mut Stats) {
    let s = scan(c);
    let len = s.len();
    let all: Vec<usize> = (0..h.nvars).collect();
    let k = match g.below(10) {
        0..=3 => 1,
        4..=6 => 2,
        7..=8 => 3,
        _ => h.nvars,
    };
    let vars = rand_vars(g, &all, k);
    let occ: Vec<usize> = (0..len).filter(|p| s[*p].is_some()).collect();
    let mut p = if !occ.is_empty() && g.chance(1, 2) { *g.pick(&occ) } else { g.below(len as u64 + 1) as usize };
    let mut hints = valid_hints(g, &s, &vars, p);
    let mut contract = true;
    if g.chance(1, 15) {
        contract = false;
        match g.below(4) {
            0 => {
                let emp: Vec<usize> = (0..len).filter(|q| s[*q].is_none()).collect();
                if !emp.is_empty() {
                    hints[0] = Some(*g.pick(&emp));
                    bump(st, "sub_break_hint_empty_slot");
                } else {
                    contract = true;
                }
            }
            1 => {
                let cands: Vec<usize> = (0..len).filter(|q| s[*q].is_some() && !has_var(&s, *q, vars[0])).collect();
                if !cands.is_empty() {
                    hints[0] = Some(*g.pick(&cands));
                    bump(st, "sub_break_hint_wrong_var");
                } else {
                    contract = true;
                }
            }
            2 => {
                let n = g.below(vars.len() as u64) as usize;
                hints.truncate(n);
                bump(st, "sub_break_short_hint");
            }
            _ => {
                // p beyond the array is fine for this function (no array scan): stays inside the contract
                p = len + g.below(3) as usize;
                hints = valid_hints(g, &s, &vars, p);
                contract = true;
                bump(st, "sub_p_beyond_len");
            }
        }
    }
    let sub0 = rand_bits(g, vars.len());
    let input = format!("hintsub {} {} {} {} {} {}", head(h, c), p, list(&vars), show_hints(&hints), bits(state), bits(&sub0));
    let res = catch(|| {
        let mut sub = sub0.clone();
        c.get_propagated_substate_with_hint(p, &mut sub, state, &vars, hints.iter().cloned());
        sub
    });
    let nt = s.iter().any(|x| x.is_some());
    match res {
        Err(_) => {
            bump(st, "sub_panic");
            let verdict = if contract { Err("get_propagated_substate_with_hint panicked inside the callers' contract".to_string()) } else { Ok(()) };
            emit(nt, &input, "panic NA", Some(verdict));
        }
        Ok(sub) => {
            // naive propagation: the p = 0 state pushed through every op before p
            let mut rolling = state.to_vec();
            for q in 0..p.min(len) {
                if let Some(o) = &s[q] {
                    for (k, v) in o.vars.iter().enumerate() {
                        rolling[*v] = o.outs[k];
                    }
                }
            }
            let want: Vec<bool> = vars.iter().map(|v| rolling[*v]).collect();
            let eq = sub == want;
            // what the worldlines must satisfy for the propagated value to be recoverable from the walk:
            // (E) an op sitting at p that is the first on its variable records the p = 0 value as input;
            // (W) an op that is the last one on its variable hands back the p = 0 value
            let ew = vars.iter().all(|v| {
                let e = match first_var(&s, *v) {
                    Some((q, r)) if q == p => s[q].as_ref().unwrap().ins[r] == state[*v],
                    _ => true,
                };
                let w = match (prev_var(&s, p, *v), last_var(&s, *v)) {
                    (Some((q, r)), Some((l, _))) if q == l => s[q].as_ref().unwrap().outs[r] == state[*v],
                    _ => true,
                };
                e && w
            });
            if consistent && !ew {
                // make_consistent guarantees both
                emit(nt, &input, "harness-bug NA", Some(Err("harness: consistent worldlines violate E/W".into())));
                return;
            }
            let verdict = if !contract {
                Ok(())
            } else if ew {
                if eq {
                    Ok(())
                } else {
                    Err(format!("propagated substate at p={} is {} but pushing the state through the ops before p gives {}", p, bits(&sub), bits(&want)))
                }
            } else {
                // outside E/W the code answers: input of the op at p when it is the first on the variable; else the
                // p = 0 value when the last op before p is the last on the variable; else that op's output
                let alt: Vec<bool> = vars
                    .iter()
                    .map(|v| match first_var(&s, *v) {
                        Some((q, r)) if q == p => s[q].as_ref().unwrap().ins[r],
                        _ => match (prev_var(&s, p, *v), last_var(&s, *v)) {
                            (Some((q, _)), Some((l, _))) if q == l => state[*v],
                            (Some((q, r)), _) => s[q].as_ref().unwrap().outs[r],
                            _ => state[*v],
                        },
                    })
                    .collect();
                if sub == alt {
                    Ok(())
                } else {
                    Err(format!("substate {} differs from the scan-level description {} (inconsistent worldlines)", bits(&sub), bits(&alt)))
                }
            };
            bump(st, if eq { "sub_eq_scan" } else { "sub_ne_scan" });
            bump(st, if ew { "sub_worldlines_EW_hold" } else { "sub_worldlines_EW_fail" });
            emit(nt, &input, &format!("{} {}", bits(&sub), if eq { "eq" } else { "ne" }), Some(verdict));
        }
    }
}

/// args prepared at `p`, handed back through `get_empty_args(SubvarAccess::Args(..))` + `fill_args_at_p(p, ..)`
fn case_recycle(g: &mut SplitMix64, h: &Hist, c: &mut FastOps, st: &mut Stats) {
    let s = scan(c);
    let len = s.len();
    let all: Vec<usize> = (0..h.nvars).collect();
    let occ: Vec<usize> = (0..len).filter(|p| s[*p].is_some()).collect();
    // A: all variables + fill_args_at_p; H: Varlist + hint fill (full or, 1 in 3, fewer hints); E: empty args
    let route = *g.pick(&["A", "H", "H", "E"]);
    let star = route == "A" || (route == "E" && g.chance(1, 3));
    let vars: Vec<usize> = if star {
        all.clone()
    } else {
        let k = match g.below(10) {
            0..=3 => 1,
            4..=6 => 2,
            7..=8 => 3,
            _ => h.nvars,
        };
        rand_vars(g, &all, k)
    };
    let p = match g.below(6) {
        0 => 0,
        1 | 2 if !occ.is_empty() => *g.pick(&occ),
        _ => g.below(len as u64) as usize,
    };
    let mut hints: Vec<Option<usize>> = vec![];
    let mut partial = false;
    if route == "H" {
        hints = valid_hints(g, &s, &vars, p);
        if g.chance(1, 3) {
            let n = g.below(vars.len() as u64) as usize;
            hints.truncate(n);
            partial = true;
        }
    }
    let input = format!("recycle {} {} {} {} {}", head(h, c), route, if star { "*".to_string() } else { list(&vars) }, p, show_hints(&hints));
    let res = catch(|| {
        let mut c = c.clone();
        let a = match route {
            "A" => {
                let a = c.get_empty_args(SubvarAccess::All);
                c.fill_args_at_p(p, a)
            }
            "H" => {
                let mut a = c.get_empty_args(SubvarAccess::Varlist(&vars));
                c.fill_args_at_p_with_hint(p, &mut a, &vars, hints.iter().cloned());
                a
            }
            _ => {
                if star {
                    c.get_empty_args(SubvarAccess::All)
                } else {
                    c.get_empty_args(SubvarAccess::Varlist(&vars))
                }
            }
        };
        let first = parse_args_debug(&format!("{:?}", a));
        let a = c.get_empty_args(SubvarAccess::Args(a));
        let a = c.fill_args_at_p(p, a);
        let cur = parse_args_debug(&format!("{:?}", a));
        c.return_args(a);
        (first, cur)
    });
    let nt = !occ.is_empty();
    match res {
        Err(e) => emit(nt, &input, "panic - 0 NA", Some(Err(format!("recycling args panicked: {}", e)))),
        Ok((first, cur)) => {
            let want_lv: Vec<Option<usize>> = vars.iter().map(|v| prev_var(&s, p, *v).map(|x| x.0)).collect();
            let want_lr: Vec<Option<usize>> = vars.iter().map(|v| prev_var(&s, p, *v).map(|x| x.1)).collect();
            let eq = cur.last_p == prev_occ(&s, p) && cur.lv == want_lv && cur.lr == want_lr;
            // documented boundary of the NON-hint fill on empty Varlist args (F-C11-a): no listed variable has an op while
            // ops lie below p => last_p stays None
            let boundary = route == "E" && !star && !vars.iter().any(|v| first_var(&s, *v).is_some()) && prev_occ(&s, p).is_some();
            let verdict = if boundary {
                Ok(())
            } else if !eq {
                Err(format!(
                    "recycled args (route {}, p={}) differ from the scan cursor: last_p {:?} want {:?}; last_vars {:?} want {:?}; last_rels {:?} want {:?}; before recycling: last_p {:?} last_vars {:?}",
                    route, p, cur.last_p, prev_occ(&s, p), cur.lv, want_lv, cur.lr, want_lr, first.last_p, first.lv
                ))
            } else if route != "E" && !partial && (first.last_p, &first.lv, &first.lr) != (cur.last_p, &cur.lv, &cur.lr) {
                Err(format!("recycling fully resolved args changed them: {:?} -> {:?}", first, cur))
            } else {
                Ok(())
            };
            bump(st, &format!("recycle_route_{}{}{}", route, if partial { "_partial" } else { "" }, if p == 0 { "_p0" } else { "" }));
            if cur.unfilled > 0 {
                bump(st, "recycle_with_open_variables");
            }
            let out = format!("{} {} {} {}", f_ou(cur.last_p), show_items(&cur), cur.unfilled, if eq { "eq" } else { "ne" });
            emit(nt, &input, &out, Some(verdict));
        }
    }
}

fn show_log_ps(l: &[Option<String>]) -> String {
    if l.is_empty() {
        "-".into()
    } else {
        l.iter().map(|x| x.clone().unwrap_or_else(|| "_".into())).collect::<Vec<_>>().join("+")
    }
}
fn show_log_ops(l: &[(usize, String)]) -> String {
    if l.is_empty() {
        "-".into()
    } else {
        l.iter().map(|(p, o)| format!("{}@{}", p, o)).collect::<Vec<_>>().join("+")
    }
}

fn pick_iter_range(g: &mut SplitMix64, len: usize) -> (usize, usize) {
    match g.below(10) {
        0 => (0, len),
        1 => (0, len + g.below(3) as usize),
        2 => {
            // reversed range
            let a = g.below(len as u64 + 2) as usize;
            let b = g.below(len as u64 + 2) as usize;
            (a.max(b), a.min(b))
        }
        3 => (len + g.below(3) as usize, len + g.below(4) as usize),
        _ => {
            let a = g.below(len as u64 + 1) as usize;
            let b = g.below(len as u64 + 2) as usize;
            if a <= b {
                (a, b)
            } else {
                (b, a)
            }
        }
    }
}

/// `try_iterate_ps` with early exit after `stop` visits, then `iterate_ps`
fn case_iter_ps(g: &mut SplitMix64, h: &Hist, c: &mut FastOps, st: &mut Stats) {
    let s = scan(c);
    let len = s.len();
    let (ps, pe) = pick_iter_range(g, len);
    let stop: Option<usize> = if g.chance(1, 3) { Some(1 + g.below(len as u64 + 1) as usize) } else { None };
    let input = format!("iterps {} {} {} {}", head(h, c), ps, pe, f_ou(stop));
    let r1 = catch(|| {
        c.try_iterate_ps(ps, pe, Vec::<Option<String>>::new(), |_, op, mut log| {
            log.push(op.map(|o| show_op(o)));
            if Some(log.len()) == stop {
                Err(log)
            } else {
                Ok(log)
            }
        })
    });
    let r2 = catch(|| {
        c.iterate_ps(ps, pe, Vec::<Option<String>>::new(), |_, op, mut log| {
            log.push(op.map(|o| show_op(o)));
            log
        })
    });
    // the naive scan: slots min(ps, L) .. min(pe, L)
    let want: Vec<Option<String>> = (ps.min(len)..pe.min(len)).map(|p| s[p].as_ref().map(|o| o.shown.clone())).collect();
    let t1 = match &r1 {
        Err(_) => "panic -".to_string(),
        Ok(Ok(l)) => format!("ok {}", show_log_ps(l)),
        Ok(Err(l)) => format!("err {}", show_log_ps(l)),
    };
    let (t2, flag) = match &r2 {
        Err(_) => ("panic -".to_string(), "NA"),
        Ok(l) => (format!("ok {}", show_log_ps(l)), if *l == want { "eq" } else { "ne" }),
    };
    let reversed = ps.min(len) > pe.min(len);
    let verdict = (|| {
        if reversed {
            // `self.ops[a..b]` with a > b: the slice panics (documented boundary of the read-only iterators)
            return if r1.is_err() && r2.is_err() { Ok(()) } else { Err("reversed range did not panic".to_string()) };
        }
        let l2 = r2.as_ref().map_err(|e| format!("iterate_ps panicked: {}", e))?;
        if *l2 != want {
            return Err(format!("iterate_ps({},{}) visited {} want {}", ps, pe, show_log_ps(l2), show_log_ps(&want)));
        }
        let r1 = r1.as_ref().map_err(|e| format!("try_iterate_ps panicked: {}", e))?;
        match (stop, r1) {
            (Some(k), Err(l)) if k <= want.len() && l[..] == want[..k] => Ok(()),
            (Some(k), Ok(l)) if k > want.len() && *l == want => Ok(()),
            (None, Ok(l)) if *l == want => Ok(()),
            _ => Err(format!("try_iterate_ps({},{}) stop {:?}: got {}", ps, pe, stop, t1)),
        }
    })();
    bump(st, if reversed { "iterps_reversed_range_panics" } else { "iterps_ok" });
    emit(s.iter().any(|x| x.is_some()), &input, &format!("{} {} {}", t1, t2, flag), Some(verdict));
}

/// `try_iterate_ops` with early exit after `stop` visits, then `iterate_ops`
fn case_iter_ops(g: &mut SplitMix64, h: &Hist, c: &mut FastOps, st: &mut Stats) {
    let s = scan(c);
    let len = s.len();
    let (ps, pe) = pick_iter_range(g, len);
    let nocc = s.iter().filter(|x| x.is_some()).count();
    let stop: Option<usize> = if g.chance(1, 3) { Some(1 + g.below(nocc as u64 + 1) as usize) } else { None };
    let input = format!("iterops {} {} {} {}", head(h, c), ps, pe, f_ou(stop));
    let r1 = catch(|| {
        c.try_iterate_ops(ps, pe, Vec::<(usize, String)>::new(), |_, op, p, mut log| {
            log.push((p, show_op(op)));
            if Some(log.len()) == stop {
                Err(log)
            } else {
                Ok(log)
            }
        })
    });
    let r2 = catch(|| {
        c.iterate_ops(ps, pe, Vec::<(usize, String)>::new(), |_, op, p, mut log| {
            log.push((p, show_op(op)));
            log
        })
    });
    // the naive scan: occupied slots ps ≤ q ≤ pe (pend INCLUSIVE, as the code has it)
    let want: Vec<(usize, String)> = (0..len).filter(|q| ps <= *q && *q <= pe).filter_map(|q| s[q].as_ref().map(|o| (q, o.shown.clone()))).collect();
    let t1 = match &r1 {
        Err(_) => "panic -".to_string(),
        Ok(Ok(l)) => format!("ok {}", show_log_ops(l)),
        Ok(Err(l)) => format!("err {}", show_log_ops(l)),
    };
    let (t2, flag) = match &r2 {
        Err(_) => ("panic -".to_string(), "NA"),
        Ok(l) => (format!("ok {}", show_log_ops(l)), if *l == want { "eq" } else { "ne" }),
    };
    // `self.ops[pstart..]` is evaluated only when the first op lies before pstart: panics iff pstart > len then
    let first = (0..len).find(|q| s[*q].is_some());
    let must_panic = ps > len && first.map(|f| f < ps).unwrap_or(false);
    let verdict = (|| {
        if must_panic {
            return if r1.is_err() && r2.is_err() { Ok(()) } else { Err("pstart beyond the array did not panic".to_string()) };
        }
        let l2 = r2.as_ref().map_err(|e| format!("iterate_ops panicked: {}", e))?;
        if *l2 != want {
            return Err(format!("iterate_ops({},{}) visited {} want {}", ps, pe, show_log_ops(l2), show_log_ops(&want)));
        }
        let r1 = r1.as_ref().map_err(|e| format!("try_iterate_ops panicked: {}", e))?;
        match (stop, r1) {
            (Some(k), Err(l)) if k <= want.len() && l[..] == want[..k] => Ok(()),
            (Some(k), Ok(l)) if k > want.len() && *l == want => Ok(()),
            (None, Ok(l)) if *l == want => Ok(()),
            _ => Err(format!("try_iterate_ops({},{}) stop {:?}: got {}", ps, pe, stop, t1)),
        }
    })();
    bump(st, if must_panic { "iterops_pstart_beyond_len_panics" } else { "iterops_ok" });
    emit(s.iter().any(|x| x.is_some()), &input, &format!("{} {} {}", t1, t2, flag), Some(verdict));
}

/// counter events of one sweep, in slot order: `-b` for the op that left a slot, `+b` for the one that entered it
fn diff_events(a: &[Option<SOp>], b: &[Option<SOp>], ev: &mut Vec<String>) {
    for p in 0..b.len() {
        let old = if p < a.len() { a[p].as_ref() } else { None };
        let new = b[p].as_ref();
        if old.map(|o| &o.shown) != new.map(|o| &o.shown) {
            if let Some(o) = old {
                ev.push(format!("-{}", o.bond));
            }
            if let Some(o) = new {
                ev.push(format!("+{}", o.bond));
            }
        }
    }
}

/// the per-bond counter table (serde snapshot) and `get_count` up to two bonds beyond it, after the history so far
fn case_counts(h: &Hist, c: &FastOps, events: &[String], st: &mut Stats) {
    let nb = h.nb.expect("counts lines only for containers with counters");
    let snap = serde_json::to_value(c).expect("serde snapshot");
    let bc: Vec<usize> = snap["bond_counters"].as_array().expect("bond_counters").iter().map(|x| x.as_u64().expect("counter") as usize).collect();
    let s = scan(c);
    let maxb = s.iter().flatten().map(|o| o.bond + 1).max().unwrap_or(0).max(bc.len());
    let gc: Vec<usize> = (0..bc.len() + 2).map(|b| c.get_count(b)).collect();
    let mut verdict = Ok(());
    for b in 0..maxb + 2 {
        let want = s.iter().flatten().filter(|o| o.bond == b).count();
        if c.get_count(b) != want {
            verdict = Err(format!("get_count({}) = {} but {} stored operators have that bond (table length {})", b, c.get_count(b), want, bc.len()));
            break;
        }
    }
    if bc.len() > nb {
        bump(st, "counts_table_grown");
    }
    let input = format!("counts {} {}", nb, if events.is_empty() { "-".to_string() } else { events.join(",") });
    emit(s.iter().any(|x| x.is_some()), &input, &format!("bc:{} gc:{}", list(&bc), list(&gc)), Some(verdict));
}

fn run_history(g: &mut SplitMix64, h: &Hist, st: &mut Stats) -> usize {
    let mut c = match h.nb {
        None => FastOps::new_from_nvars(h.nvars),
        Some(nb) => FastOps::new_from_nvars_and_nbonds(h.nvars, Some(nb)),
    };
    let mut lines = 0;
    let mut events: Vec<String> = vec![];
    for step in 0..h.len {
        // a public mutation inside its valid domain must not panic (the sub-sweeps go through the hint fill)
        let before = show_slots(&c);
        let s0 = scan(&c);
        match catch(|| mutate(g, h, &mut c, st)) {
            Err(e) => {
                emit(true, &format!("histpanic {}", step), "panic", Some(Err(format!("a valid public mutation panicked: {} (contents before: {})", e, before))));
                return lines + 1;
            }
            Ok(Err(e)) => {
                emit(true, &format!("histbad {}", step), "bad", Some(Err(format!("{} (contents before: {})", e, before))));
                return lines + 1;
            }
            Ok(Ok(())) => {}
        }
        // every getter / navigation answer = scan, after every mutation
        match catch(|| check_against_scan(&c)) {
            Ok(Ok(())) => {}
            Ok(Err(e)) | Err(e) => {
                emit(true, &format!("histbad {}", step), "bad", Some(Err(format!("after a valid mutation: {} (contents before: {})", e, before))));
                return lines + 1;
            }
        }
        let s1 = scan(&c);
        diff_events(&s0, &s1, &mut events);
        if c.get_cutoff() == 0 {
            continue;
        }
        // every few steps: rewrite the in/out bits into consistent periodic worldlines (what samplers hold)
        let state = rand_bits(g, h.nvars);
        let consistent = step % 3 == 2;
        if consistent {
            make_consistent(g, &mut c, &state);
            bump(st, "containers_made_consistent");
            diff_events(&s1, &scan(&c), &mut events);
        }
        if h.nb.is_some() {
            case_counts(h, &c, &events, st);
            lines += 1;
        }
        for _ in 0..2 {
            case_fill(g, h, &mut c, st);
            case_sub(g, h, &mut c, &state, consistent, st);
            lines += 2;
        }
        case_iter_ps(g, h, &mut c, st);
        case_iter_ops(g, h, &mut c, st);
        case_recycle(g, h, &mut c, st);
        lines += 3;
    }
    lines
}

fn main() {
    let a = args();
    if std::env::var("C11H_LOUD").is_err() {
        quiet_panics();
    }
    let mut g = SplitMix64::new(a.seed ^ 0xC11_4157);
    let mut st = Stats::new();
    let target = if a.thorough { 36_000 } else { 6_000 };
    let mut lines = 0;
    let mut hists = 0;
    while lines < target {
        let nvars = 1 + g.below(6) as usize;
        let nb = if g.chance(2, 5) { None } else { Some(1 + g.below(6) as usize) };
        let h = Hist {
            nvars,
            nb,
            // a third of the containers with counters also store operators of bonds BEYOND the table (bonds added later)
            bondlim: nb.unwrap_or(6) + if nb.is_some() && g.chance(1, 3) { 4 } else { 0 },
            cap: if a.thorough && g.chance(1, 4) { 60 } else { 6 + g.below(20) as usize },
            len: 10 + g.below(if a.thorough { 120 } else { 40 }) as usize,
        };
        lines += run_history(&mut g, &h, &mut st);
        hists += 1;
    }
    stat("c11h_histories", hists);
    stat("c11h_lines", lines);
    for (k, v) in &st {
        stat(&format!("c11h_{}", k), v);
    }
}
