//! C16 — Interaction constructors: validation, lookup, classification, samplability.
//! Drives the real constructors through `Qmc::make_*interaction*` and reports what they did.
//! The oracle column evaluates the property directly on the real code (no model involved).

use qmc::sse::*;
use vh::*;

type Q = DefaultQmc<SplitMix64>;

#[derive(Clone, Copy, PartialEq, Eq, Debug)]
enum Variant {
    New,
    NewOff,
    Diag,
    DiagOff,
}
impl Variant {
    fn name(self) -> &'static str {
        match self {
            Variant::New => "new",
            Variant::NewOff => "new_off",
            Variant::Diag => "diag",
            Variant::DiagOff => "diag_off",
        }
    }
    fn is_diag(self) -> bool {
        matches!(self, Variant::Diag | Variant::DiagOff)
    }
    fn is_off(self) -> bool {
        matches!(self, Variant::NewOff | Variant::DiagOff)
    }
}

fn patterns(n: usize) -> Vec<Vec<bool>> {
    (0..(1usize << n))
        .map(|i| (0..n).map(|b| (i >> (n - 1 - b)) & 1 == 1).collect())
        .collect()
}

fn build(variant: Variant, mat: &[f64], vars: &[usize], nvars: usize, loops: bool) -> Result<Result<Q, String>, String> {
    let mat = mat.to_vec();
    let vars = vars.to_vec();
    catch(move || {
        let mut q = Q::new_with_state(nvars, SplitMix64::new(7), vec![false; nvars], loops);
        let r = match variant {
            Variant::New => q.make_interaction(mat, vars),
            Variant::NewOff => q.make_interaction_and_offset(mat, vars),
            Variant::Diag => q.make_diagonal_interaction(mat, vars),
            Variant::DiagOff => q.make_diagonal_interaction_and_offset(mat, vars),
        };
        r.map(|_| q)
    })
}

/// Run `steps` time steps in a helper thread; Err on panic or hang.
/// `company`: 0 = the interaction alone; 1 = constant single-site terms (and a constant two-site term) registered BEFORE it;
/// 2 = the same terms registered AFTER it. The company makes cluster updates possible (a constant single-site term is a
/// cluster edge) and puts constant multi-variable operators next to it, so that the sampler's use of the interaction's
/// classification (constant / symmetric, accumulated over all registered terms in either order) is exercised too.
fn sample(variant: Variant, mat: &[f64], vars: &[usize], nvars: usize, loops: bool, heatbath: bool, company: u8, steps: usize) -> Result<(), String> {
    let (tx, rx) = std::sync::mpsc::channel();
    let mat = mat.to_vec();
    let vars = vars.to_vec();
    std::thread::spawn(move || {
        let r = catch(|| {
            let add_company = |q: &mut Q| {
                for v in 0..nvars {
                    q.make_interaction(vec![0.75; 4], vec![v]).unwrap();
                }
                if nvars >= 2 {
                    q.make_interaction(vec![0.5; 16], vec![0, 1]).unwrap();
                }
            };
            let mut q = Q::new_with_state(nvars, SplitMix64::new(7), vec![false; nvars], loops);
            if company == 1 {
                add_company(&mut q);
            }
            let r = match variant {
                Variant::New => q.make_interaction(mat, vars),
                Variant::NewOff => q.make_interaction_and_offset(mat, vars),
                Variant::Diag => q.make_diagonal_interaction(mat, vars),
                Variant::DiagOff => q.make_diagonal_interaction_and_offset(mat, vars),
            };
            if r.is_ok() {
                if company == 2 {
                    add_company(&mut q);
                }
                q.set_do_heatbath(heatbath);
                for _ in 0..steps {
                    q.timestep(1.0);
                }
                for _ in 0..steps {
                    q.timestep(0.25);
                }
                for _ in 0..steps {
                    q.timestep(2.0);
                }
            }
        });
        let _ = tx.send(r);
    });
    match rx.recv_timeout(std::time::Duration::from_secs(20)) {
        Ok(Ok(())) => Ok(()),
        Ok(Err(p)) => Err(format!("sampling panicked (loops={} heatbath={} company={}): {}", loops, heatbath, company, p)),
        Err(_) => Err(format!("sampling hung >20s (loops={} heatbath={} company={})", loops, heatbath, company)),
    }
}

/// `tolwit` mode: judge the literal property also where entries are closer than the library's tolerance (finding F23)
static STRICT: std::sync::atomic::AtomicBool = std::sync::atomic::AtomicBool::new(false);

fn run_case(variant: Variant, mat: &[f64], vars: &[usize], do_sample: bool) {
    let strict = STRICT.load(std::sync::atomic::Ordering::Relaxed);
    let tag = if strict { " [F23: entries closer than f64::EPSILON are treated as equal]" } else { "" };
    let nvars = vars.iter().cloned().max().map(|m| m + 1).unwrap_or(1).max(1);
    let input = format!("ctor {} {} {}", variant.name(), rats(mat), list(vars));
    let built = build(variant, mat, vars, nvars, false);
    let nv = vars.len();
    // ---- what the property demands, evaluated without the model ----
    let want_len = if variant.is_diag() { 1usize.checked_shl(nv as u32) } else { 1usize.checked_shl(2 * nv as u32) };
    let len_ok = want_len == Some(mat.len());
    // shifted matrix for the offset variants
    let mut shifted = mat.to_vec();
    let mut min_diag = 0.0;
    if variant.is_off() && len_ok {
        if variant.is_diag() {
            min_diag = mat.iter().cloned().fold(f64::MAX, f64::min);
            shifted.iter_mut().for_each(|x| *x -= min_diag);
        } else {
            let tn = 1usize << nv;
            min_diag = (0..tn).map(|i| mat[i * tn + i]).fold(f64::MAX, f64::min);
            (0..tn).for_each(|i| shifted[i * tn + i] -= min_diag);
        }
    }
    let has_neg = shifted.iter().any(|x| *x < 0.0);
    // fix F26: a variable list naming a variable twice must be rejected (accepted, it crashed the sampler)
    let has_dup = (1..vars.len()).any(|i| vars[..i].contains(&vars[i]));
    let must_reject = !len_ok || has_neg || has_dup;
    let mut oracle: Result<(), String> = Ok(());
    let mut fail = |s: String| {
        if oracle.is_ok() {
            oracle = Err(s);
        }
    };
    let output;
    match built {
        Err(p) => {
            output = "P".to_string();
            fail(format!("constructor panicked: {}", p));
        }
        Ok(Err(_)) => {
            output = "E".to_string();
            // The property only demands errors for bad sizes / negative weights; rejecting more
            // (e.g. an empty variable list) is allowed, so no oracle complaint here unless the
            // input is a plainly valid interaction on >= 1 variable.
            if !must_reject && nv >= 1 {
                fail("valid interaction rejected".to_string());
            }
        }
        Ok(Ok(q)) => {
            let i = q.get_bonds().last().unwrap().clone();
            if must_reject {
                fail(format!(
                    "accepted although {}",
                    if !len_ok { "matrix size does not match variable list" } else if has_neg { "negative weight" } else { "the variable list names a variable twice (finding F26)" }
                ));
            }
            // entries closer than the library's absolute tolerance (f64::EPSILON) without being equal: the
            // classification there is decided by the tolerance, which only the model comparison judges
            let well_sep = strict || shifted.iter().all(|a| shifted.iter().all(|b| a == b || (a - b).abs() >= 4.0 * f64::EPSILON));
            let pats = patterns(nv);
            let mut table = vec![];
            let at_doc = |ins: &[bool], outs: &[bool]| -> f64 {
                let idx = |bs: &mut dyn Iterator<Item = &bool>| bs.fold(0usize, |a, b| a * 2 + (*b as usize));
                if variant.is_diag() {
                    if ins == outs {
                        shifted[idx(&mut ins.iter())]
                    } else {
                        0.0
                    }
                } else {
                    shifted[idx(&mut outs.iter().chain(ins.iter()))]
                }
            };
            let mut all_eq = true;
            let mut diag_eq = true;
            let mut sym = true;
            let mut first: Option<f64> = None;
            let mut firstd: Option<f64> = None;
            for ins in &pats {
                for outs in &pats {
                    let r = catch(|| i.at(ins, outs));
                    match r {
                        Ok(Ok(v)) => {
                            table.push(rat(v));
                            if len_ok && !has_neg {
                                let want = at_doc(ins, outs);
                                if v != want && well_sep {
                                    fail(format!("at({},{}) = {} but documented entry is {}{}", bits(ins), bits(outs), v, want, tag));
                                }
                                if *first.get_or_insert(want) != want {
                                    all_eq = false;
                                }
                                if ins == outs && *firstd.get_or_insert(want) != want {
                                    diag_eq = false;
                                }
                                let fi: Vec<bool> = ins.iter().map(|b| !b).collect();
                                let fo: Vec<bool> = outs.iter().map(|b| !b).collect();
                                if at_doc(&fi, &fo) != want {
                                    sym = false;
                                }
                            }
                        }
                        Ok(Err(_)) => {
                            table.push("E".into());
                            fail(format!("at({},{}) returned Err", bits(ins), bits(outs)));
                        }
                        Err(p) => {
                            table.push("P".into());
                            fail(format!("at({},{}) panicked: {}", bits(ins), bits(outs), p));
                        }
                    }
                }
            }
            let mut longer = pats.first().cloned().unwrap_or_default();
            longer.insert(0, true);
            let wrong = match catch(|| i.at(&longer, pats.first().map(|v| v.as_slice()).unwrap_or(&[]))) {
                Ok(Ok(_)) => "ok",
                Ok(Err(_)) => "E",
                Err(_) => "P",
            };
            if wrong != "E" {
                fail("at with wrong-length input did not return Err".to_string());
            }
            let symr = catch(|| i.sym_under_ising());
            let syms = match &symr {
                Ok(b) => (*b as u8).to_string(),
                Err(_) => "P".to_string(),
            };
            if len_ok && !has_neg && well_sep {
                // classification oracle (entries are equal or well separated, so exact equality is the property)
                let all_zero_diag_table = variant.is_diag() && shifted.iter().all(|x| *x == 0.0);
                if !all_zero_diag_table && i.is_constant() != (all_eq && (!variant.is_diag() || nv == 0)) {
                    fail(format!("is_constant() = {} but matrix constant = {}{}", i.is_constant(), all_eq, tag));
                }
                if i.is_constant_diag() != diag_eq {
                    fail(format!("is_constant_diag() = {} but diagonal constant = {}", i.is_constant_diag(), diag_eq));
                }
                match symr {
                    Ok(b) if b != sym => fail(format!("sym_under_ising() = {} but matrix symmetric under global flip = {}", b, sym)),
                    Err(p) => fail(format!("sym_under_ising panicked: {}", p)),
                    _ => {}
                }
                let off = -q.get_offset();
                if variant.is_off() && off != min_diag {
                    fail(format!("recorded offset {} but min diagonal {}", off, min_diag));
                }
            }
            if do_sample {
                for loops in [false, true] {
                    for heatbath in [false, true] {
                        for company in [0u8, 1, 2] {
                            if let Err(e) = sample(variant, mat, vars, nvars, loops, heatbath, company, 15) {
                                fail(e);
                            }
                        }
                    }
                }
            }
            output = format!(
                "ok {} {} {} {} {} {} {}",
                nv,
                i.is_constant() as u8,
                i.is_constant_diag() as u8,
                syms,
                rat(-q.get_offset()),
                if table.is_empty() { "-".to_string() } else { table.join(",") },
                wrong
            );
        }
    }
    let nontrivial = len_ok && nv >= 1;
    emit(nontrivial, &input, &output, Some(oracle));
}

fn main() {
    quiet_panics();
    let a = args();
    let mut g = SplitMix64::new(a.seed ^ 0xC16);
    let variants = [Variant::New, Variant::NewOff, Variant::Diag, Variant::DiagOff];
    if let Some(path) = &a.replay {
        // replay file: lines `ctor <variant> <mat as decimal floats,comma> <vars>`
        for line in std::fs::read_to_string(path).unwrap().lines() {
            let t: Vec<&str> = line.split_whitespace().collect();
            if t.len() >= 4 && t[0] == "ctor" {
                let v = variants.iter().find(|v| v.name() == t[1]).copied().unwrap();
                let parse = |s: &str| -> f64 {
                    if let Some((n, d)) = s.split_once('/') {
                        n.parse::<f64>().unwrap() / d.parse::<f64>().unwrap()
                    } else {
                        s.parse().unwrap()
                    }
                };
                let mat: Vec<f64> = if t[2] == "-" { vec![] } else { t[2].split(',').map(parse).collect() };
                let vars: Vec<usize> = if t[3] == "-" { vec![] } else { t[3].split(',').map(|s| s.parse().unwrap()).collect() };
                run_case(v, &mat, &vars, true);
            }
        }
        return;
    }
    if a.mode == "tolwit" {
        // finding F23 (Lean: Qmc.C16.tolerance_witness): the literal property at entries closer than f64::EPSILON
        STRICT.store(true, std::sync::atomic::Ordering::Relaxed);
        let below_eps = f64::from_bits(f64::EPSILON.to_bits() - 1);
        run_case(Variant::New, &[0.0, below_eps, 0.0, 0.0], &[0], false);
        return;
    }
    // 1. every length 0..=70 x variable-list length 0..=4 x constructor, with 0/1 and dyadic entries
    let maxlen = 70;
    for len in 0..=maxlen {
        for nv in 0..=4usize {
            for v in variants {
                let vars: Vec<usize> = shuffled_vars(&mut g, nv);
                let mat: Vec<f64> = (0..len).map(|_| if g.coin() { 1.0 } else { 0.0 }).collect();
                let exact = (if v.is_diag() { 1usize << nv } else { 1usize << (2 * nv) }) == len;
                run_case(v, &mat, &vars, exact || g.chance(1, 8));
                let mat: Vec<f64> = (0..len).map(|_| { let lo = if g.chance(1, 6) { -2 } else { 0 }; g.dyadic(lo, 4, 8) }).collect();
                run_case(v, &mat, &vars, exact);
            }
        }
    }
    // 2. exhaustive 0/1 matrices: full 1 var (16), diagonal 1..3 vars (4+16+256), diag 4 vars sampled
    for v in [Variant::New, Variant::NewOff] {
        for m in 0..16u32 {
            let mat: Vec<f64> = (0..4).map(|b| ((m >> b) & 1) as f64).collect();
            run_case(v, &mat, &[0], true);
        }
    }
    for v in [Variant::Diag, Variant::DiagOff] {
        for nv in 1..=3usize {
            let len = 1usize << nv;
            for m in 0..(1u32 << len) {
                let mat: Vec<f64> = (0..len).map(|b| ((m >> b) & 1) as f64).collect();
                run_case(v, &mat, &shuffled_vars(&mut g, nv), nv <= 2 || g.chance(1, 16));
            }
        }
    }
    // 3. random 0/1 and dyadic matrices of the right size, biased towards symmetric / constant ones
    let n_rand = if a.thorough { 6000 } else { 600 };
    for k in 0..n_rand {
        let v = *g.pick(&variants);
        let nv = if v.is_diag() { g.range(1, 4) as usize } else { g.range(1, 2) as usize };
        let len = if v.is_diag() { 1usize << nv } else { 1usize << (2 * nv) };
        let zero_one = g.coin();
        let mut mat: Vec<f64> = (0..len)
            .map(|_| if zero_one { g.below(2) as f64 } else { g.dyadic(0, 3, 4) })
            .collect();
        match g.below(6) {
            0 => {
                // make globally flip-symmetric
                for i in 0..len {
                    let j = (!i) & (len - 1);
                    mat[j] = mat[i];
                }
            }
            1 => {
                // symmetric except one far-away pair
                for i in 0..len {
                    let j = (!i) & (len - 1);
                    mat[j] = mat[i];
                }
                let i = g.below(len as u64) as usize;
                mat[i] += 0.5;
            }
            2 => {
                let c = mat[0];
                mat.iter_mut().for_each(|x| *x = c);
                if g.coin() {
                    let i = g.below(len as u64) as usize;
                    mat[i] += 0.25;
                }
            }
            3 => {
                // constant diagonal only
                if !v.is_diag() {
                    let tn = 1usize << nv;
                    for i in 0..tn {
                        mat[i * tn + i] = 1.5;
                    }
                }
            }
            _ => {}
        }
        if g.chance(1, 12) {
            let i = g.below(len as u64) as usize;
            mat[i] = -0.5;
        }
        if v.is_off() && g.chance(1, 3) {
            // the offset variants accept negative (diagonal) entries: shift them below zero, incl. constant negative tables
            let d = g.range(1, 24) as f64 / 4.0;
            if v.is_diag() {
                mat.iter_mut().for_each(|x| *x -= d);
            } else {
                let tn = 1usize << nv;
                for i in 0..tn {
                    mat[i * tn + i] -= d;
                }
            }
        }
        // variable indices beyond a machine word's bit count, incl. pairs congruent modulo 64 (a bitmask-based
        // duplicate check would confuse them or overflow its shift)
        let mut vars = if g.chance(1, 6) { big_vars(&mut g, nv) } else { shuffled_vars(&mut g, nv) };
        if nv >= 2 && g.chance(1, 8) {
            // a repeated variable (finding F26): must be an error
            let i = g.below(nv as u64) as usize;
            let j = (i + 1 + g.below(nv as u64 - 1) as usize) % nv;
            vars[j] = vars[i];
        }
        run_case(v, &mat, &vars, k % 4 == 0);
    }
    // 4. get_power_of_two / get_mat_var_size are private; they are observed through case set 1.
    // 5. tiny, subnormal and tolerance-boundary entries: a weight in (-EPSILON, 0) is still a negative weight;
    //    |a - b| = EPSILON is "different", the next float below is "equal". Only matrices whose pairwise
    //    differences are exact in binary64 are used, so the rational model and the f64 code must agree
    //    entry for entry (no offset arithmetic on special values: New, Diag, and NewOff with the special
    //    values off the diagonal).
    let e = f64::EPSILON;
    let prev = |x: f64| f64::from_bits(x.to_bits() - 1);
    let next = |x: f64| f64::from_bits(x.to_bits() + 1);
    let pos: Vec<f64> = vec![5e-324, f64::MIN_POSITIVE, 1e-300, 1e-17, e / 2.0, prev(e), e, next(e), 2.0 * e,
                             1.0 - e / 2.0, 1.0 - e, 1.0 + e, 1.0, 0.0];
    let neg: Vec<f64> = vec![-5e-324, -f64::MIN_POSITIVE, -1e-300, -1e-17, 0.3 - 0.1 - 0.2, -e / 2.0, -prev(e), -e,
                             -next(e), -2.0 * e];
    let exact_sub = |a: f64, b: f64| -> bool {
        // TwoSum on a + (-b): error term zero <=> the f64 difference is the real difference
        let nb = -b;
        let s = a + nb;
        let a1 = s - nb;
        let b1 = s - a1;
        (a - a1) + (nb - b1) == 0.0 && s.is_finite()
    };
    let n_tiny = if a.thorough { 4000 } else { 500 };
    let mut tiny_neg = 0usize;
    let mut tiny_boundary = 0usize;
    for k in 0..n_tiny {
        let v = *g.pick(&[Variant::New, Variant::NewOff, Variant::Diag]);
        let nv = if v.is_diag() { g.range(1, 3) as usize } else { g.range(1, 2) as usize };
        let len = if v.is_diag() { 1usize << nv } else { 1usize << (2 * nv) };
        let tn = 1usize << nv;
        let base = *g.pick(&[0.0, 1.0, 0.5]);
        let flat = g.coin();
        let mut mat: Vec<f64> = (0..len).map(|_| if flat { base } else { g.dyadic(0, 2, 4) }).collect();
        let on_diag = |i: usize| !v.is_diag() && i / tn == i % tn;
        let nspec = g.range(1, 3) as usize;
        let want_neg = g.chance(1, 2);
        for j in 0..nspec {
            let i = g.below(len as u64) as usize;
            if v == Variant::NewOff && on_diag(i) {
                continue;
            }
            let x = if want_neg && j == 0 { *g.pick(&neg) } else { *g.pick(&pos) };
            let old = mat[i];
            mat[i] = x;
            if !mat.iter().all(|a| mat.iter().all(|b| exact_sub(*a, *b))) {
                mat[i] = old;
            }
        }
        if mat.iter().any(|x| *x < 0.0) {
            tiny_neg += 1;
        }
        if mat.iter().any(|a| mat.iter().any(|b| a != b && (a - b).abs() < 4.0 * e)) {
            tiny_boundary += 1;
        }
        run_case(v, &mat, &shuffled_vars(&mut g, nv), k % 5 == 0);
    }
    stat("tiny_stream_with_negative_entry", tiny_neg);
    stat("tiny_stream_with_tolerance_boundary_pair", tiny_boundary);
}

fn big_vars(g: &mut SplitMix64, nv: usize) -> Vec<usize> {
    let base = g.below(6) as usize;
    let mut ks: Vec<usize> = (0..3usize).collect();
    let mut out = vec![];
    for j in 0..nv {
        if j < 3 && g.chance(2, 3) {
            let i = g.below(ks.len() as u64) as usize;
            out.push(base + 64 * ks.remove(i)); // congruent modulo 64
        } else {
            let mut v = 6 + g.below(120) as usize;
            while out.contains(&v) {
                v += 1;
            }
            out.push(v);
        }
    }
    out
}

fn shuffled_vars(g: &mut SplitMix64, nv: usize) -> Vec<usize> {
    let mut pool: Vec<usize> = (0..nv + 1).collect();
    let mut out = vec![];
    for _ in 0..nv {
        let i = g.below(pool.len() as u64) as usize;
        out.push(pool.remove(i));
    }
    out
}
