//! C16 — Interaction constructors: validation, lookup, classification, samplability.
//! Drives the real constructors through `Qmc::make_*interaction*` and reports what they did.
//! The oracle column evaluates the property directly on the real code (no model involved).
//! Modes:
//!   all        the standalone constructors (through `Qmc::make_*` on in-range variables), lookups, classification,
//!              sampling of every accepted interaction on a fresh sampler (model: QmcModel/Interaction.lean)
//!   tolwit     finding F23 replayed
//!   qmcctor    SAMPLER-LEVEL constructors (F31): random sequences of the four `make_*interaction*` entry points on one
//!              sampler, ~1/3 of the variables out of range, valid and invalid matrices, interleaved with time steps
//!              (heat-bath on/off) and clones; after EVERY event the private fields are read through the serde snapshot
//!              (model: QmcModel/QmcCtor.lean, theorems QmcProps/C16Sampler.lean)
//!   afterconv  F32: Ising sampler stepped, `into_qmc`, further valid interactions, time steps; model-free oracle

use qmc::sse::*;
use vh::*;

type Q = DefaultQmc<SplitMix64>;

#[derive(Clone, Copy, PartialEq, Eq, Debug)]
enum Variant {
    New,
    NewOff,
    Diag,
    DiagOff,
}
impl Variant {
    fn name(self) -> &'static str {
        match self {
            Variant::New => "new",
            Variant::NewOff => "new_off",
            Variant::Diag => "diag",
            Variant::DiagOff => "diag_off",
        }
    }
    fn is_diag(self) -> bool {
        matches!(self, Variant::Diag | Variant::DiagOff)
    }
    fn is_off(self) -> bool {
        matches!(self, Variant::NewOff | Variant::DiagOff)
    }
}

fn patterns(n: usize) -> Vec<Vec<bool>> {
    (0..(1usize << n))
        .map(|i| (0..n).map(|b| (i >> (n - 1 - b)) & 1 == 1).collect())
        .collect()
}

fn build(variant: Variant, mat: &[f64], vars: &[usize], nvars: usize, loops: bool) -> Result<Result<Q, String>, String> {
    let mat = mat.to_vec();
    let vars = vars.to_vec();
    catch(move || {
        let mut q = Q::new_with_state(nvars, SplitMix64::new(7), vec![false; nvars], loops);
        let r = match variant {
            Variant::New => q.make_interaction(mat, vars),
            Variant::NewOff => q.make_interaction_and_offset(mat, vars),
            Variant::Diag => q.make_diagonal_interaction(mat, vars),
            Variant::DiagOff => q.make_diagonal_interaction_and_offset(mat, vars),
        };
        r.map(|_| q)
    })
}

/// Run `steps` time steps in a helper thread; Err on panic or hang.
/// `company`: 0 = the interaction alone; 1 = constant single-site terms (and a constant two-site term) registered BEFORE it;
/// 2 = the same terms registered AFTER it. The company makes cluster updates possible (a constant single-site term is a
/// cluster edge) and puts constant multi-variable operators next to it, so that the sampler's use of the interaction's
/// classification (constant / symmetric, accumulated over all registered terms in either order) is exercised too.
fn sample(variant: Variant, mat: &[f64], vars: &[usize], nvars: usize, loops: bool, heatbath: bool, company: u8, steps: usize) -> Result<(), String> {
    let (tx, rx) = std::sync::mpsc::channel();
    let mat = mat.to_vec();
    let vars = vars.to_vec();
    std::thread::spawn(move || {
        let r = catch(|| {
            let add_company = |q: &mut Q| {
                for v in 0..nvars {
                    q.make_interaction(vec![0.75; 4], vec![v]).unwrap();
                }
                if nvars >= 2 {
                    q.make_interaction(vec![0.5; 16], vec![0, 1]).unwrap();
                }
            };
            let mut q = Q::new_with_state(nvars, SplitMix64::new(7), vec![false; nvars], loops);
            if company == 1 {
                add_company(&mut q);
            }
            let r = match variant {
                Variant::New => q.make_interaction(mat, vars),
                Variant::NewOff => q.make_interaction_and_offset(mat, vars),
                Variant::Diag => q.make_diagonal_interaction(mat, vars),
                Variant::DiagOff => q.make_diagonal_interaction_and_offset(mat, vars),
            };
            if r.is_ok() {
                if company == 2 {
                    add_company(&mut q);
                }
                q.set_do_heatbath(heatbath);
                for _ in 0..steps {
                    q.timestep(1.0);
                }
                for _ in 0..steps {
                    q.timestep(0.25);
                }
                for _ in 0..steps {
                    q.timestep(2.0);
                }
            }
        });
        let _ = tx.send(r);
    });
    match rx.recv_timeout(std::time::Duration::from_secs(20)) {
        Ok(Ok(())) => Ok(()),
        Ok(Err(p)) => Err(format!("sampling panicked (loops={} heatbath={} company={}): {}", loops, heatbath, company, p)),
        Err(_) => Err(format!("sampling hung >20s (loops={} heatbath={} company={})", loops, heatbath, company)),
    }
}

/// `tolwit` mode: judge the literal property also where entries are closer than the library's tolerance (finding F23)
static STRICT: std::sync::atomic::AtomicBool = std::sync::atomic::AtomicBool::new(false);

fn run_case(variant: Variant, mat: &[f64], vars: &[usize], do_sample: bool) {
    let strict = STRICT.load(std::sync::atomic::Ordering::Relaxed);
    let tag = if strict { " [F23: entries closer than f64::EPSILON are treated as equal]" } else { "" };
    let nvars = vars.iter().cloned().max().map(|m| m + 1).unwrap_or(1).max(1);
    let input = format!("ctor {} {} {}", variant.name(), rats(mat), list(vars));
    let built = build(variant, mat, vars, nvars, false);
    let nv = vars.len();
    // ---- what the property demands, evaluated without the model ----
    let want_len = if variant.is_diag() { 1usize.checked_shl(nv as u32) } else { 1usize.checked_shl(2 * nv as u32) };
    let len_ok = want_len == Some(mat.len());
    // shifted matrix for the offset variants
    let mut shifted = mat.to_vec();
    let mut min_diag = 0.0;
    if variant.is_off() && len_ok {
        if variant.is_diag() {
            min_diag = mat.iter().cloned().fold(f64::MAX, f64::min);
            shifted.iter_mut().for_each(|x| *x -= min_diag);
        } else {
            let tn = 1usize << nv;
            min_diag = (0..tn).map(|i| mat[i * tn + i]).fold(f64::MAX, f64::min);
            (0..tn).for_each(|i| shifted[i * tn + i] -= min_diag);
        }
    }
    let has_neg = shifted.iter().any(|x| *x < 0.0);
    // fix F26: a variable list naming a variable twice must be rejected (accepted, it crashed the sampler)
    let has_dup = (1..vars.len()).any(|i| vars[..i].contains(&vars[i]));
    let must_reject = !len_ok || has_neg || has_dup;
    let mut oracle: Result<(), String> = Ok(());
    let mut fail = |s: String| {
        if oracle.is_ok() {
            oracle = Err(s);
        }
    };
    let output;
    match built {
        Err(p) => {
            output = "P".to_string();
            fail(format!("constructor panicked: {}", p));
        }
        Ok(Err(_)) => {
            output = "E".to_string();
            // The property only demands errors for bad sizes / negative weights; rejecting more
            // (e.g. an empty variable list) is allowed, so no oracle complaint here unless the
            // input is a plainly valid interaction on >= 1 variable.
            if !must_reject && nv >= 1 {
                fail("valid interaction rejected".to_string());
            }
        }
        Ok(Ok(q)) => {
            let i = q.get_bonds().last().unwrap().clone();
            if must_reject {
                fail(format!(
                    "accepted although {}",
                    if !len_ok { "matrix size does not match variable list" } else if has_neg { "negative weight" } else { "the variable list names a variable twice (finding F26)" }
                ));
            }
            // entries closer than the library's absolute tolerance (f64::EPSILON) without being equal: the
            // classification there is decided by the tolerance, which only the model comparison judges
            let well_sep = strict || shifted.iter().all(|a| shifted.iter().all(|b| a == b || (a - b).abs() >= 4.0 * f64::EPSILON));
            let pats = patterns(nv);
            let mut table = vec![];
            let at_doc = |ins: &[bool], outs: &[bool]| -> f64 {
                let idx = |bs: &mut dyn Iterator<Item = &bool>| bs.fold(0usize, |a, b| a * 2 + (*b as usize));
                if variant.is_diag() {
                    if ins == outs {
                        shifted[idx(&mut ins.iter())]
                    } else {
                        0.0
                    }
                } else {
                    shifted[idx(&mut outs.iter().chain(ins.iter()))]
                }
            };
            let mut all_eq = true;
            let mut diag_eq = true;
            let mut sym = true;
            let mut first: Option<f64> = None;
            let mut firstd: Option<f64> = None;
            for ins in &pats {
                for outs in &pats {
                    let r = catch(|| i.at(ins, outs));
                    match r {
                        Ok(Ok(v)) => {
                            table.push(rat(v));
                            if len_ok && !has_neg {
                                let want = at_doc(ins, outs);
                                if v != want && well_sep {
                                    fail(format!("at({},{}) = {} but documented entry is {}{}", bits(ins), bits(outs), v, want, tag));
                                }
                                if *first.get_or_insert(want) != want {
                                    all_eq = false;
                                }
                                if ins == outs && *firstd.get_or_insert(want) != want {
                                    diag_eq = false;
                                }
                                let fi: Vec<bool> = ins.iter().map(|b| !b).collect();
                                let fo: Vec<bool> = outs.iter().map(|b| !b).collect();
                                if at_doc(&fi, &fo) != want {
                                    sym = false;
                                }
                            }
                        }
                        Ok(Err(_)) => {
                            table.push("E".into());
                            fail(format!("at({},{}) returned Err", bits(ins), bits(outs)));
                        }
                        Err(p) => {
                            table.push("P".into());
                            fail(format!("at({},{}) panicked: {}", bits(ins), bits(outs), p));
                        }
                    }
                }
            }
            let mut longer = pats.first().cloned().unwrap_or_default();
            longer.insert(0, true);
            let wrong = match catch(|| i.at(&longer, pats.first().map(|v| v.as_slice()).unwrap_or(&[]))) {
                Ok(Ok(_)) => "ok",
                Ok(Err(_)) => "E",
                Err(_) => "P",
            };
            if wrong != "E" {
                fail("at with wrong-length input did not return Err".to_string());
            }
            let symr = catch(|| i.sym_under_ising());
            let syms = match &symr {
                Ok(b) => (*b as u8).to_string(),
                Err(_) => "P".to_string(),
            };
            if len_ok && !has_neg && well_sep {
                // classification oracle (entries are equal or well separated, so exact equality is the property)
                let all_zero_diag_table = variant.is_diag() && shifted.iter().all(|x| *x == 0.0);
                if !all_zero_diag_table && i.is_constant() != (all_eq && (!variant.is_diag() || nv == 0)) {
                    fail(format!("is_constant() = {} but matrix constant = {}{}", i.is_constant(), all_eq, tag));
                }
                if i.is_constant_diag() != diag_eq {
                    fail(format!("is_constant_diag() = {} but diagonal constant = {}", i.is_constant_diag(), diag_eq));
                }
                match symr {
                    Ok(b) if b != sym => fail(format!("sym_under_ising() = {} but matrix symmetric under global flip = {}", b, sym)),
                    Err(p) => fail(format!("sym_under_ising panicked: {}", p)),
                    _ => {}
                }
                let off = -q.get_offset();
                if variant.is_off() && off != min_diag {
                    fail(format!("recorded offset {} but min diagonal {}", off, min_diag));
                }
            }
            if do_sample {
                for loops in [false, true] {
                    for heatbath in [false, true] {
                        for company in [0u8, 1, 2] {
                            if let Err(e) = sample(variant, mat, vars, nvars, loops, heatbath, company, 15) {
                                fail(e);
                            }
                        }
                    }
                }
            }
            output = format!(
                "ok {} {} {} {} {} {} {}",
                nv,
                i.is_constant() as u8,
                i.is_constant_diag() as u8,
                syms,
                rat(-q.get_offset()),
                if table.is_empty() { "-".to_string() } else { table.join(",") },
                wrong
            );
        }
    }
    let nontrivial = len_ok && nv >= 1;
    emit(nontrivial, &input, &output, Some(oracle));
}

// ---------------------------------------------------------------------------------------------
// mode qmcctor — the sampler-level constructors on ONE sampler (F31; seeds C17-17, C02-18, C09-18)
// ---------------------------------------------------------------------------------------------

/// histogram counters, printed once per mode (`STAT` lines feed the input distribution of the evidence)
static COUNTS: std::sync::Mutex<std::collections::BTreeMap<String, usize>> = std::sync::Mutex::new(std::collections::BTreeMap::new());
fn bump(key: &str, n: usize) {
    *COUNTS.lock().unwrap().entry(key.to_string()).or_insert(0) += n;
}
fn flush_counts() {
    for (k, v) in COUNTS.lock().unwrap().iter() {
        stat(k, *v);
    }
}

#[derive(Clone, Debug)]
enum Ev {
    Call(Variant, Vec<f64>, Vec<usize>),
    /// `set_do_heatbath`
    Hb(bool),
    /// `set_do_loop_updates`
    Loops(bool),
    /// time steps with the options as they are
    Step,
    /// `q.clone()`; the flag says whether the sequence continues on the clone
    CloneQ(bool),
}

fn ev_tok(e: &Ev) -> String {
    match e {
        Ev::Call(v, m, vs) => format!("{}:{}:{}", v.name(), rats(m), list(vs)),
        Ev::Hb(b) => format!("hb:{}", *b as u8),
        Ev::Loops(b) => format!("loops:{}", *b as u8),
        Ev::Step => "step".to_string(),
        Ev::CloneQ(u) => format!("clone:{}", *u as u8),
    }
}

/// The private fields, read through the serde snapshot.
#[derive(Clone, PartialEq, Debug)]
struct Fields {
    nb: usize,
    offset: f64,
    hce: bool,
    bis: bool,
    ncd: Vec<u64>,
    /// `bond_weights`: None, or the rows (bond, max weight, cumulative)
    bw: Option<Vec<(u64, f64, f64)>>,
    hb: bool,
    loops: bool,
}
impl Fields {
    /// `<#bonds>:<offset>:<has_cluster_edges>:<breaks_ising_symmetry>:<non_const_diags>:<bond_weights>:<do_heatbath>:<do_loop_updates>`
    fn tok(&self) -> String {
        let bw = match &self.bw {
            None => "none".to_string(),
            Some(t) => rats(&t.iter().map(|r| r.1).collect::<Vec<f64>>()),
        };
        format!("{}:{}:{}:{}:{}:{}:{}:{}", self.nb, rat(self.offset), self.hce as u8, self.bis as u8, list(&self.ncd), bw, self.hb as u8, self.loops as u8)
    }
}
const FIELD_NAMES: &str = "bonds:offset:has_cluster_edges:breaks_ising_symmetry:non_const_diags:bond_weights:do_heatbath:do_loop_updates";

fn snap(q: &Q) -> Fields {
    let js = serde_json::to_value(q).unwrap();
    let bw = if js["bond_weights"].is_null() {
        None
    } else {
        Some(js["bond_weights"]["max_weight_and_cumulative"].as_array().unwrap().iter()
            .map(|r| (r[0].as_u64().unwrap(), r[1].as_f64().unwrap(), r[2].as_f64().unwrap())).collect())
    };
    Fields {
        nb: q.get_bonds().len(),
        offset: q.get_offset(),
        hce: js["has_cluster_edges"].as_bool().unwrap(),
        bis: js["breaks_ising_symmetry"].as_bool().unwrap(),
        ncd: js["non_const_diags"].as_array().unwrap().iter().map(|x| x.as_u64().unwrap()).collect(),
        bw,
        hb: js["do_heatbath"].as_bool().unwrap(),
        loops: js["do_loop_updates"].as_bool().unwrap(),
    }
}

/// What the harness itself says about a matrix handed to constructor `v` for `nv` variables (no library code):
/// None = the size does not fit; otherwise the shifted matrix's classification.
struct Class {
    has_neg: bool,
    min_diag: f64,
    /// a constant operator is a FULL matrix with all entries equal; a cluster edge is a constant single-site operator
    edge: bool,
    sym: bool,
    const_diag: bool,
    /// largest diagonal weight (at least 0): the bond's entry of the heat-bath table
    max_diag: f64,
}

fn classify(v: Variant, mat: &[f64], nv: usize) -> Option<Class> {
    let want_len = if v.is_diag() { 1usize.checked_shl(nv as u32) } else { 1usize.checked_shl(2 * nv as u32) };
    if want_len != Some(mat.len()) {
        return None;
    }
    let len = mat.len();
    let tn = 1usize << nv;
    let mut m = mat.to_vec();
    let mut min_diag = 0.0;
    if v.is_off() {
        if v.is_diag() {
            min_diag = m.iter().cloned().fold(f64::MAX, f64::min);
            m.iter_mut().for_each(|x| *x -= min_diag);
        } else {
            min_diag = (0..tn).map(|i| m[i * tn + i]).fold(f64::MAX, f64::min);
            (0..tn).for_each(|i| m[i * tn + i] -= min_diag);
        }
    }
    let diag: Vec<f64> = if v.is_diag() { m.clone() } else { (0..tn).map(|i| m[i * tn + i]).collect() };
    Some(Class {
        has_neg: m.iter().any(|x| *x < 0.0),
        min_diag,
        edge: !v.is_diag() && nv == 1 && m.iter().all(|x| *x == m[0]),
        sym: (0..len).all(|i| m[i] == m[len - 1 - i]),
        const_diag: diag.iter().all(|x| *x == diag[0]),
        max_diag: diag.iter().cloned().fold(0.0, f64::max),
    })
}

/// what the fields must be by the harness's own bookkeeping of the calls it made (the heat-bath table is judged
/// separately: it must be absent or the table of the current interactions)
#[derive(Clone, Default)]
struct Want {
    nb: usize,
    offset: f64,
    hce: bool,
    bis: bool,
    ncd: Vec<u64>,
    hb: bool,
    loops: bool,
    /// per accepted bond: its largest diagonal weight
    maxw: Vec<f64>,
}
impl Want {
    /// None = the fields are what they must be
    fn judge(&self, f: &Fields) -> Option<String> {
        let mut exp = f.clone();
        exp.nb = self.nb;
        exp.offset = self.offset;
        exp.hce = self.hce;
        exp.bis = self.bis;
        exp.ncd = self.ncd.clone();
        exp.hb = self.hb;
        exp.loops = self.loops;
        if exp != *f {
            return Some(format!("sampler fields are {} but by the calls made so far they must be {} ({})", f.tok(), exp.tok(), FIELD_NAMES));
        }
        if let Some(t) = &f.bw {
            let mut cum = 0.0;
            let ok = t.len() == self.maxw.len() && t.iter().enumerate().all(|(b, r)| {
                cum += self.maxw[b];
                r.0 == b as u64 && r.1 == self.maxw[b] && r.2 == cum
            });
            if !ok {
                return Some(format!("the cached heat-bath table {:?} is not the table of the current interactions (per-bond maxima {:?})", t, self.maxw));
            }
        }
        None
    }
}

#[derive(Clone, Copy, PartialEq, Eq, Debug)]
enum MatClass {
    Any,
    Sym,
    Break,
    Const,
    ConstDiag,
}

/// a right-sized matrix with entries k/4 of the wanted class (before the offset shift)
fn gen_mat(g: &mut SplitMix64, v: Variant, nv: usize, c: MatClass) -> Vec<f64> {
    let len = if v.is_diag() { 1usize << nv } else { 1usize << (2 * nv) };
    let tn = 1usize << nv;
    let mut mat: Vec<f64> = (0..len).map(|_| g.dyadic(0, 6, 4)).collect();
    let mirror = |mat: &mut Vec<f64>| {
        for i in 0..len {
            mat[len - 1 - i] = mat[i];
        }
    };
    match c {
        MatClass::Any => {}
        MatClass::Sym => mirror(&mut mat),
        MatClass::Break => {
            mirror(&mut mat);
            let i = g.below(len as u64) as usize;
            mat[i] += 0.5;
        }
        MatClass::Const => {
            let x = 0.25 + g.dyadic(0, 6, 4);
            mat.iter_mut().for_each(|e| *e = x);
        }
        MatClass::ConstDiag => {
            if v.is_diag() {
                let x = mat[0];
                mat.iter_mut().for_each(|e| *e = x);
            } else {
                let x = g.dyadic(0, 6, 4);
                (0..tn).for_each(|i| mat[i * tn + i] = x);
            }
        }
    }
    mat
}

/// `nv` distinct variables below `hi`
fn distinct_vars(g: &mut SplitMix64, nv: usize, hi: usize) -> Vec<usize> {
    let mut pool: Vec<usize> = (0..hi).collect();
    let mut out = vec![];
    for _ in 0..nv.min(hi) {
        let i = g.below(pool.len() as u64) as usize;
        out.push(pool.remove(i));
    }
    out
}

/// a random call: variables from 0..nvars+2 (so about a third of the calls name a variable the sampler does not
/// have), sometimes repeated; matrices mostly valid, sometimes negative / wrong size
fn gen_call(g: &mut SplitMix64, nvars: usize) -> Ev {
    let variants = [Variant::New, Variant::NewOff, Variant::Diag, Variant::DiagOff];
    let v = *g.pick(&variants);
    let nv = if g.chance(1, 40) { 0 } else if v.is_diag() { g.range(1, 3) as usize } else { g.range(1, 2) as usize };
    let hi = if g.chance(1, 3) { nvars } else { nvars + 2 };
    let mut vars = distinct_vars(g, nv, hi.max(nv));
    if nv >= 2 && g.chance(1, 8) {
        let i = g.below(nv as u64) as usize;
        let j = (i + 1 + g.below(nv as u64 - 1) as usize) % nv;
        vars[j] = vars[i];
    }
    let c = *g.pick(&[MatClass::Any, MatClass::Sym, MatClass::Sym, MatClass::Break, MatClass::Const, MatClass::ConstDiag]);
    let mut mat = gen_mat(g, v, nv, c);
    let len = mat.len();
    let tn = 1usize << nv;
    if v.is_off() && g.chance(1, 2) {
        // the offset variants take any diagonal: shift it (also below zero) so that a non-zero offset is reported
        let d = g.range(-12, 12) as f64 / 4.0;
        if v.is_diag() {
            mat.iter_mut().for_each(|x| *x += d);
        } else {
            (0..tn).for_each(|i| mat[i * tn + i] += d);
        }
    }
    if g.chance(1, 10) {
        let i = g.below(len as u64) as usize;
        mat[i] = -0.5 - g.dyadic(0, 4, 4);
    }
    if g.chance(1, 14) {
        if g.coin() {
            mat.push(0.5);
        } else {
            mat.pop();
        }
    }
    Ev::Call(v, mat, vars)
}

/// a VALID call on in-range variables of the wanted class (used by the planned mixed sequences and by `afterconv`)
fn gen_valid_call(g: &mut SplitMix64, nvars: usize, c: MatClass) -> Ev {
    let variants = [Variant::New, Variant::NewOff, Variant::Diag, Variant::DiagOff];
    let mut v = *g.pick(&variants);
    if c == MatClass::Const {
        v = if g.coin() { Variant::New } else { Variant::NewOff };
    }
    let maxv = if v.is_diag() { 3 } else { 2 };
    let nv = if c == MatClass::Const && g.chance(3, 4) { 1 } else { (g.range(1, maxv) as usize).min(nvars) };
    let vars = distinct_vars(g, nv, nvars);
    let mut mat = gen_mat(g, v, nv, c);
    if v.is_off() && g.coin() {
        let d = g.range(-8, 8) as f64 / 4.0;
        let tn = 1usize << nv;
        if v.is_diag() {
            mat.iter_mut().for_each(|x| *x += d);
        } else {
            (0..tn).for_each(|i| mat[i * tn + i] += d);
        }
    }
    Ev::Call(v, mat, vars)
}

fn call_real(q: &mut Q, v: Variant, mat: &[f64], vars: &[usize]) -> Result<Result<(), String>, String> {
    let (mat, vars) = (mat.to_vec(), vars.to_vec());
    catch(|| match v {
        Variant::New => q.make_interaction(mat, vars),
        Variant::NewOff => q.make_interaction_and_offset(mat, vars),
        Variant::Diag => q.make_diagonal_interaction(mat, vars),
        Variant::DiagOff => q.make_diagonal_interaction_and_offset(mat, vars),
    })
}

/// One sequence on one sampler. `plan`: calls to issue in this order (None = `ncalls` random calls); option setters
/// (also before the first interaction), and — once the sampler has a bond — time steps and clones are interleaved.
fn run_qmcctor(g: &mut SplitMix64, nvars: usize, loops: bool, plan: Option<Vec<Ev>>, ncalls: usize, tag: &str) {
    let mut q = Q::new_with_state(nvars, SplitMix64::new(g.next()), (0..nvars).map(|_| g.coin()).collect::<Vec<bool>>(), loops);
    let mut want = Want { loops, ..Want::default() };
    let mut evs: Vec<String> = vec![];
    let mut out: Vec<String> = vec![];
    let mut oracle: Result<(), String> = Ok(());
    let (mut acc, mut rej, mut oor_calls, mut steps, mut hb_steps, mut added_under_hb) = (0usize, 0usize, 0usize, 0usize, 0usize, 0usize);
    let mut plan_it = plan.map(|p| p.into_iter());
    let mut issued = 0usize;
    'seq: loop {
        // next event
        let ev = if !q.get_bonds().is_empty() && g.chance(1, 4) {
            if g.chance(3, 4) { Ev::Step } else { Ev::CloneQ(g.coin()) }
        } else if g.chance(1, 5) {
            if g.chance(2, 3) { Ev::Hb(g.chance(2, 3)) } else { Ev::Loops(g.coin()) }
        } else {
            let next = match plan_it.as_mut() {
                Some(it) => it.next(),
                None => if issued < ncalls { Some(gen_call(g, nvars)) } else { None },
            };
            match next {
                Some(e) => { issued += 1; e }
                None => {
                    // finish with time steps on what has been accepted
                    if q.get_bonds().is_empty() || evs.last().map(|s| s == "step").unwrap_or(false) { break 'seq; }
                    Ev::Step
                }
            }
        };
        evs.push(ev_tok(&ev));
        match &ev {
            Ev::Call(v, mat, vars) => {
                let before = snap(&q);
                let res = match call_real(&mut q, *v, mat, vars) {
                    Ok(r) => r,
                    Err(p) => {
                        out.push("P".into());
                        oracle = Err(format!("{} panicked: {}", ev_tok(&ev), p));
                        break 'seq;
                    }
                };
                let after = snap(&q);
                // ---- the harness's own rule, no library code ----
                let nv = vars.len();
                let cl = classify(*v, mat, nv);
                let dup = (1..nv).any(|i| vars[..i].contains(&vars[i]));
                let oor = vars.iter().any(|x| *x >= nvars);
                if oor { oor_calls += 1; }
                let why_reject = if cl.is_none() { Some("matrix size does not match the variable list") }
                    else if cl.as_ref().unwrap().has_neg { Some("negative weight") }
                    else if dup { Some("the variable list names a variable twice") }
                    else if oor { Some("a variable index is >= the sampler's number of variables (finding F31)") }
                    else { None };
                match res {
                    Err(_) => {
                        rej += 1;
                        out.push(format!("E:{}", after.tok()));
                        if why_reject.is_none() && nv >= 1 {
                            oracle = Err(format!("{}: valid interaction on variables the sampler has was rejected", ev_tok(&ev)));
                        } else if after != before {
                            oracle = Err(format!("{}: the call returned Err but changed the sampler: {} -> {} ({})", ev_tok(&ev), before.tok(), after.tok(), FIELD_NAMES));
                        }
                    }
                    Ok(()) => {
                        acc += 1;
                        if want.hb { added_under_hb += 1; }
                        out.push(format!("A:{}", after.tok()));
                        if let Some(w) = why_reject {
                            oracle = Err(format!("{}: accepted although {}", ev_tok(&ev), w));
                        } else if nv == 0 {
                            oracle = Err(format!("{}: accepted an interaction on no variable", ev_tok(&ev)));
                        } else {
                            let cl = cl.unwrap();
                            if !cl.const_diag { want.ncd.push(want.nb as u64); }
                            want.nb += 1;
                            if v.is_off() { want.offset -= cl.min_diag; }
                            want.hce |= cl.edge;
                            want.bis |= !cl.sym;
                            want.maxw.push(cl.max_diag);
                            if let Some(m) = want.judge(&after) {
                                oracle = Err(format!("{}: accepted; {}", ev_tok(&ev), m));
                            } else if q.should_do_cluster_update() != (want.hce && !want.bis) {
                                oracle = Err(format!("{}: should_do_cluster_update() = {}", ev_tok(&ev), q.should_do_cluster_update()));
                            }
                        }
                    }
                }
            }
            Ev::Hb(b) | Ev::Loops(b) => {
                let r = catch(|| if matches!(ev, Ev::Hb(_)) { q.set_do_heatbath(*b) } else { q.set_do_loop_updates(*b) });
                if let Err(p) = r {
                    out.push("P".into());
                    oracle = Err(format!("{} panicked: {}", ev_tok(&ev), p));
                    break 'seq;
                }
                if matches!(ev, Ev::Hb(_)) { want.hb = *b } else { want.loops = *b }
                let f = snap(&q);
                out.push(format!("o:{}", f.tok()));
                if let Some(m) = want.judge(&f) {
                    oracle = Err(format!("{}: {}", ev_tok(&ev), m));
                } else if q.should_do_heatbath() != want.hb || q.should_do_loop_update() != want.loops {
                    oracle = Err(format!("{}: should_do_heatbath() = {}, should_do_loop_update() = {}", ev_tok(&ev), q.should_do_heatbath(), q.should_do_loop_update()));
                }
            }
            Ev::Step => {
                steps += 1;
                if want.hb { hb_steps += 1; }
                let r = catch(|| {
                    for beta in [1.0, 0.5, 2.0] {
                        for _ in 0..4 {
                            q.timestep(beta);
                        }
                    }
                });
                match r {
                    Err(p) => {
                        out.push("P".into());
                        oracle = Err(format!("sampling the accepted interactions panicked ({} bonds, heatbath={} loops={}): {}", want.nb, want.hb, want.loops, p));
                        break 'seq;
                    }
                    Ok(()) => {
                        let f = snap(&q);
                        out.push(format!("s:{}", f.tok()));
                        if let Some(m) = want.judge(&f) {
                            oracle = Err(format!("after time steps: {}", m));
                        } else if want.hb && f.bw.is_none() {
                            oracle = Err("after heat-bath time steps the sampler has no heat-bath table".to_string());
                        }
                    }
                }
            }
            Ev::CloneQ(use_clone) => {
                let c = match catch(|| q.clone()) {
                    Ok(c) => c,
                    Err(p) => {
                        out.push("P".into());
                        oracle = Err(format!("clone panicked: {}", p));
                        break 'seq;
                    }
                };
                let (a, b) = (snap(&q), snap(&c));
                out.push(format!("k:{}", b.tok()));
                if a != b {
                    oracle = Err(format!("clone differs from the original: {} vs {} ({})", b.tok(), a.tok(), FIELD_NAMES));
                } else if c.should_do_cluster_update() != q.should_do_cluster_update() {
                    oracle = Err("clone: should_do_cluster_update differs".to_string());
                }
                if *use_clone { q = c; }
            }
        }
        if oracle.is_err() {
            break 'seq;
        }
    }
    bump("qmcctor_calls_accepted", acc);
    bump("qmcctor_calls_rejected", rej);
    bump("qmcctor_calls_with_out_of_range_variable", oor_calls);
    bump("qmcctor_step_events", steps);
    bump("qmcctor_step_events_with_heatbath", hb_steps);
    bump("qmcctor_calls_accepted_while_heatbath_on", added_under_hb);
    bump(&format!("qmcctor_sequences_{}", tag), 1);
    let input = format!("qmcctor {} {} {}", nvars, loops as u8, if evs.is_empty() { "-".to_string() } else { evs.join(" ") });
    emit(acc >= 1 && rej >= 1 || tag != "random", &input, &if out.is_empty() { "-".to_string() } else { out.join(" ") }, Some(oracle));
}

fn mode_qmcctor(a: &Args) {
    let mut g = SplitMix64::new(a.seed ^ 0xC16_C7);
    // 1. the F31 witness input itself: 2 variables, two transverse terms, a diagonal term on variable 5
    run_qmcctor(&mut g, 2, false, Some(vec![
        Ev::Call(Variant::New, vec![1.0; 4], vec![0]),
        Ev::Call(Variant::New, vec![1.0; 4], vec![1]),
        Ev::Call(Variant::Diag, vec![1.0, 2.0], vec![5]),
        Ev::Call(Variant::Diag, vec![1.0, 2.0], vec![1]),
    ]), 0, "f31_witness");
    // 2. planned mixed sequences of VALID in-range calls: symmetric / symmetry-breaking / constant single-site /
    //    constant-diagonal interactions in every order of a random triple (flags must be OR-ed, never assigned,
    //    and must not depend on the order)
    let n_plan = if a.thorough { 1000 } else { 150 };
    let classes = [MatClass::Sym, MatClass::Break, MatClass::Const, MatClass::ConstDiag, MatClass::Any];
    for _ in 0..n_plan {
        let nvars = g.range(1, 5) as usize;
        let triple: Vec<Ev> = (0..3).map(|k| {
            let c = if k == 0 { MatClass::Sym } else if k == 1 { MatClass::Break } else { *g.pick(&classes) };
            gen_valid_call(&mut g, nvars, c)
        }).collect();
        for perm in [[0usize, 1, 2], [0, 2, 1], [1, 0, 2], [1, 2, 0], [2, 0, 1], [2, 1, 0]] {
            let plan: Vec<Ev> = perm.iter().map(|i| triple[*i].clone()).collect();
            let loops = g.coin();
            run_qmcctor(&mut g, nvars, loops, Some(plan), 0, "planned_order");
        }
    }
    // 3. random sequences
    let n_rand = if a.thorough { 20000 } else { 2500 };
    for _ in 0..n_rand {
        let nvars = g.range(1, 5) as usize;
        let ncalls = g.range(3, 10) as usize;
        let loops = g.coin();
        run_qmcctor(&mut g, nvars, loops, None, ncalls, "random");
    }
    flush_counts();
}

// ---------------------------------------------------------------------------------------------
// mode afterconv — F32: interactions added to a sampler produced by `into_qmc`, then sampled
// ---------------------------------------------------------------------------------------------

type G = DefaultQmcIsingGraph<SplitMix64>;

/// consistency of the converted sampler through the public API: operator string closes on the state, per-bond
/// counters equal a direct count, every operator belongs to a registered bond
fn consistency(q: &Q) -> Result<(), String> {
    use qmc::sse::qmc_traits::{Op, OpContainer};
    let m = q.get_manager_ref();
    let state = q.clone_state();
    match propagate_check(m, &state) {
        Err(p) => return Err(format!("operator at p={} does not meet its inputs", p)),
        Ok(fin) => {
            if fin != state {
                return Err("the operator string does not return to the initial state".to_string());
            }
        }
    }
    if !m.verify(&state) {
        return Err("OpContainer::verify is false".to_string());
    }
    let nb = q.get_bonds().len();
    // `Interaction::vars` is private: read it through the serde snapshot
    let js = serde_json::to_value(q.get_bonds()).unwrap();
    let bond_vars: Vec<Vec<usize>> = (0..nb)
        .map(|b| js[b]["vars"].as_array().unwrap().iter().map(|x| x.as_u64().unwrap() as usize).collect())
        .collect();
    let mut direct = vec![0usize; nb + 2];
    for p in 0..m.get_cutoff() {
        if let Some(op) = m.get_pth(p) {
            let b = op.get_bond();
            if b >= nb {
                return Err(format!("operator at p={} has bond {} of {}", p, b, nb));
            }
            if op.get_vars() != &bond_vars[b][..] {
                return Err(format!("operator at p={} of bond {} acts on {:?}", p, b, op.get_vars()));
            }
            direct[b] += 1;
        }
    }
    for b in 0..nb + 2 {
        let c = q.get_bond_count(b);
        if c != direct[b] {
            return Err(format!("get_bond_count({}) = {} but the operator string holds {} operators of that bond", b, c, direct[b]));
        }
    }
    if direct.iter().sum::<usize>() != q.get_n() {
        return Err(format!("get_n() = {} but the operator string holds {} operators", q.get_n(), direct.iter().sum::<usize>()));
    }
    Ok(())
}

fn run_afterconv(g: &mut SplitMix64, witness: Option<(f64, usize)>) {
    let nv = if witness.is_some() { 4 } else { g.range(2, 5) as usize };
    let mut edges: Vec<((usize, usize), f64)> = vec![];
    let jval = |g: &mut SplitMix64| -> f64 {
        let m = *g.pick(&[0.25, 0.5, 1.0, 1.5]);
        if g.coin() { m } else { -m }
    };
    if witness.is_some() {
        edges = vec![((0, 1), 1.0), ((1, 2), -1.0), ((2, 3), 1.0)];
    } else {
        for x in 0..nv - 1 {
            edges.push(((x, x + 1), jval(g)));
        }
        if nv > 2 && g.coin() {
            edges.push(((nv - 1, 0), jval(g)));
        }
    }
    let gamma = if witness.is_some() { 0.75 } else { *g.pick(&[0.25, 0.5, 0.75, 1.0, 1.5]) };
    let h = match witness { Some((h, _)) => h, None => *g.pick(&[0.0, 0.0, 0.0, 0.5, -0.5, 0.25, 1.0]) };
    let pre = if witness.is_some() { 50 } else { g.range(0, 40) as usize };
    let beta = if witness.is_some() { 1.0 } else { *g.pick(&[0.5, 1.0, 2.0]) };
    let seed = g.next() % 1000;
    let hb_ising = witness.is_none() && g.chance(1, 3);
    let extra = match witness { Some((_, e)) => e, None => g.range(1, nv as i64 + 3) as usize };
    let calls: Vec<Ev> = (0..extra).map(|k| {
        if witness.is_some() {
            Ev::Call(Variant::Diag, vec![0.5, 1.5], vec![k % 4])
        } else {
            let c = *g.pick(&[MatClass::Any, MatClass::Sym, MatClass::Break, MatClass::Const, MatClass::ConstDiag]);
            gen_valid_call(g, nv, c)
        }
    }).collect();
    let loops = witness.is_none() && g.coin();
    let hb = witness.is_none() && g.coin();
    let post = if witness.is_some() { 300 } else { 40 };
    let etok = edges.iter().map(|((a, b), j)| format!("{},{}:{}", a, b, rat(*j))).collect::<Vec<_>>().join("!");
    let input = format!(
        "afterconv {} {} {} {} {} {} {} {} {} {} {} {}",
        etok, rat(gamma), rat(h), nv, pre, rat(beta), seed, hb_ising as u8,
        calls.iter().map(ev_tok).collect::<Vec<_>>().join("!"), loops as u8, hb as u8, post
    );
    let run = catch(|| -> Result<(), String> {
        let mut ig = G::new_with_rng(edges.clone(), gamma, h, nv, SplitMix64::new(seed), None);
        if hb_ising {
            ig.set_enable_heatbath(true);
        }
        ig.timesteps(pre, beta);
        let mut q: Q = ig.into_qmc();
        consistency(&q).map_err(|e| format!("right after into_qmc: {}", e))?;
        for c in &calls {
            if let Ev::Call(v, mat, vars) = c {
                let (mat, vars) = (mat.clone(), vars.clone());
                let r = match v {
                    Variant::New => q.make_interaction(mat, vars),
                    Variant::NewOff => q.make_interaction_and_offset(mat, vars),
                    Variant::Diag => q.make_diagonal_interaction(mat, vars),
                    Variant::DiagOff => q.make_diagonal_interaction_and_offset(mat, vars),
                };
                if let Err(e) = r {
                    return Err(format!("valid interaction {} rejected after into_qmc: {}", ev_tok(c), e));
                }
            }
        }
        q.set_do_loop_updates(loops);
        q.set_do_heatbath(hb);
        for t in 0..post {
            q.timestep(beta);
            if t % 10 == 9 {
                consistency(&q).map_err(|e| format!("after {} steps on the converted sampler with {} added interaction(s): {}", t + 1, extra, e))?;
            }
        }
        consistency(&q).map_err(|e| format!("after {} steps on the converted sampler with {} added interaction(s): {}", post, extra, e))
    });
    let (output, oracle) = match run {
        Ok(Ok(())) => ("ok", Ok(())),
        Ok(Err(e)) => ("ok", Err(e)),
        Err(p) => ("P", Err(format!("an interaction ACCEPTED after into_qmc made the sampler panic (h = {}, {} added, loops={} heatbath={}; finding F32): {}", h, extra, loops, hb, p))),
    };
    bump(if h == 0.0 { "afterconv_h_zero" } else { "afterconv_h_nonzero" }, 1);
    bump(if extra > nv { "afterconv_more_than_nvars_added" } else { "afterconv_at_most_nvars_added" }, 1);
    emit(true, &input, output, Some(oracle));
}

fn mode_afterconv(a: &Args) {
    let mut g = SplitMix64::new(a.seed ^ 0xAF7E_2C);
    // the two F32 witness scenarios
    run_afterconv(&mut g, Some((0.5, 1)));
    run_afterconv(&mut g, Some((0.0, 5)));
    let n = if a.thorough { 5000 } else { 600 };
    for _ in 0..n {
        run_afterconv(&mut g, None);
    }
    flush_counts();
}

fn main() {
    quiet_panics();
    let a = args();
    if a.mode == "qmcctor" {
        mode_qmcctor(&a);
        return;
    }
    if a.mode == "afterconv" {
        mode_afterconv(&a);
        return;
    }
    let mut g = SplitMix64::new(a.seed ^ 0xC16);
    let variants = [Variant::New, Variant::NewOff, Variant::Diag, Variant::DiagOff];
    if let Some(path) = &a.replay {
        // replay file: lines `ctor <variant> <mat as decimal floats,comma> <vars>`
        for line in std::fs::read_to_string(path).unwrap().lines() {
            let t: Vec<&str> = line.split_whitespace().collect();
            if t.len() >= 4 && t[0] == "ctor" {
                let v = variants.iter().find(|v| v.name() == t[1]).copied().unwrap();
                let parse = |s: &str| -> f64 {
                    if let Some((n, d)) = s.split_once('/') {
                        n.parse::<f64>().unwrap() / d.parse::<f64>().unwrap()
                    } else {
                        s.parse().unwrap()
                    }
                };
                let mat: Vec<f64> = if t[2] == "-" { vec![] } else { t[2].split(',').map(parse).collect() };
                let vars: Vec<usize> = if t[3] == "-" { vec![] } else { t[3].split(',').map(|s| s.parse().unwrap()).collect() };
                run_case(v, &mat, &vars, true);
            }
        }
        return;
    }
    if a.mode == "tolwit" {
        // finding F23 (Lean: Qmc.C16.tolerance_witness): the literal property at entries closer than f64::EPSILON
        STRICT.store(true, std::sync::atomic::Ordering::Relaxed);
        let below_eps = f64::from_bits(f64::EPSILON.to_bits() - 1);
        run_case(Variant::New, &[0.0, below_eps, 0.0, 0.0], &[0], false);
        return;
    }
    // 1. every length 0..=70 x variable-list length 0..=4 x constructor, with 0/1 and dyadic entries
    let maxlen = 70;
    for len in 0..=maxlen {
        for nv in 0..=4usize {
            for v in variants {
                let vars: Vec<usize> = shuffled_vars(&mut g, nv);
                let mat: Vec<f64> = (0..len).map(|_| if g.coin() { 1.0 } else { 0.0 }).collect();
                let exact = (if v.is_diag() { 1usize << nv } else { 1usize << (2 * nv) }) == len;
                run_case(v, &mat, &vars, exact || g.chance(1, 8));
                let mat: Vec<f64> = (0..len).map(|_| { let lo = if g.chance(1, 6) { -2 } else { 0 }; g.dyadic(lo, 4, 8) }).collect();
                run_case(v, &mat, &vars, exact);
            }
        }
    }
    // 2. exhaustive 0/1 matrices: full 1 var (16), diagonal 1..3 vars (4+16+256), diag 4 vars sampled
    for v in [Variant::New, Variant::NewOff] {
        for m in 0..16u32 {
            let mat: Vec<f64> = (0..4).map(|b| ((m >> b) & 1) as f64).collect();
            run_case(v, &mat, &[0], true);
        }
    }
    for v in [Variant::Diag, Variant::DiagOff] {
        for nv in 1..=3usize {
            let len = 1usize << nv;
            for m in 0..(1u32 << len) {
                let mat: Vec<f64> = (0..len).map(|b| ((m >> b) & 1) as f64).collect();
                run_case(v, &mat, &shuffled_vars(&mut g, nv), nv <= 2 || g.chance(1, 16));
            }
        }
    }
    // 3. random 0/1 and dyadic matrices of the right size, biased towards symmetric / constant ones
    let n_rand = if a.thorough { 6000 } else { 600 };
    for k in 0..n_rand {
        let v = *g.pick(&variants);
        let nv = if v.is_diag() { g.range(1, 4) as usize } else { g.range(1, 2) as usize };
        let len = if v.is_diag() { 1usize << nv } else { 1usize << (2 * nv) };
        let zero_one = g.coin();
        let mut mat: Vec<f64> = (0..len)
            .map(|_| if zero_one { g.below(2) as f64 } else { g.dyadic(0, 3, 4) })
            .collect();
        match g.below(6) {
            0 => {
                // make globally flip-symmetric
                for i in 0..len {
                    let j = (!i) & (len - 1);
                    mat[j] = mat[i];
                }
            }
            1 => {
                // symmetric except one far-away pair
                for i in 0..len {
                    let j = (!i) & (len - 1);
                    mat[j] = mat[i];
                }
                let i = g.below(len as u64) as usize;
                mat[i] += 0.5;
            }
            2 => {
                let c = mat[0];
                mat.iter_mut().for_each(|x| *x = c);
                if g.coin() {
                    let i = g.below(len as u64) as usize;
                    mat[i] += 0.25;
                }
            }
            3 => {
                // constant diagonal only
                if !v.is_diag() {
                    let tn = 1usize << nv;
                    for i in 0..tn {
                        mat[i * tn + i] = 1.5;
                    }
                }
            }
            _ => {}
        }
        if g.chance(1, 12) {
            let i = g.below(len as u64) as usize;
            mat[i] = -0.5;
        }
        if v.is_off() && g.chance(1, 3) {
            // the offset variants accept negative (diagonal) entries: shift them below zero, incl. constant negative tables
            let d = g.range(1, 24) as f64 / 4.0;
            if v.is_diag() {
                mat.iter_mut().for_each(|x| *x -= d);
            } else {
                let tn = 1usize << nv;
                for i in 0..tn {
                    mat[i * tn + i] -= d;
                }
            }
        }
        // variable indices beyond a machine word's bit count, incl. pairs congruent modulo 64 (a bitmask-based
        // duplicate check would confuse them or overflow its shift)
        let mut vars = if g.chance(1, 6) { big_vars(&mut g, nv) } else { shuffled_vars(&mut g, nv) };
        if nv >= 2 && g.chance(1, 8) {
            // a repeated variable (finding F26): must be an error
            let i = g.below(nv as u64) as usize;
            let j = (i + 1 + g.below(nv as u64 - 1) as usize) % nv;
            vars[j] = vars[i];
        }
        run_case(v, &mat, &vars, k % 4 == 0);
    }
    // 4. get_power_of_two / get_mat_var_size are private; they are observed through case set 1.
    // 5. tiny, subnormal and tolerance-boundary entries: a weight in (-EPSILON, 0) is still a negative weight;
    //    |a - b| = EPSILON is "different", the next float below is "equal". Only matrices whose pairwise
    //    differences are exact in binary64 are used, so the rational model and the f64 code must agree
    //    entry for entry (no offset arithmetic on special values: New, Diag, and NewOff with the special
    //    values off the diagonal).
    let e = f64::EPSILON;
    let prev = |x: f64| f64::from_bits(x.to_bits() - 1);
    let next = |x: f64| f64::from_bits(x.to_bits() + 1);
    let pos: Vec<f64> = vec![5e-324, f64::MIN_POSITIVE, 1e-300, 1e-17, e / 2.0, prev(e), e, next(e), 2.0 * e,
                             1.0 - e / 2.0, 1.0 - e, 1.0 + e, 1.0, 0.0];
    let neg: Vec<f64> = vec![-5e-324, -f64::MIN_POSITIVE, -1e-300, -1e-17, 0.3 - 0.1 - 0.2, -e / 2.0, -prev(e), -e,
                             -next(e), -2.0 * e];
    let exact_sub = |a: f64, b: f64| -> bool {
        // TwoSum on a + (-b): error term zero <=> the f64 difference is the real difference
        let nb = -b;
        let s = a + nb;
        let a1 = s - nb;
        let b1 = s - a1;
        (a - a1) + (nb - b1) == 0.0 && s.is_finite()
    };
    let n_tiny = if a.thorough { 4000 } else { 500 };
    let mut tiny_neg = 0usize;
    let mut tiny_boundary = 0usize;
    for k in 0..n_tiny {
        let v = *g.pick(&[Variant::New, Variant::NewOff, Variant::Diag]);
        let nv = if v.is_diag() { g.range(1, 3) as usize } else { g.range(1, 2) as usize };
        let len = if v.is_diag() { 1usize << nv } else { 1usize << (2 * nv) };
        let tn = 1usize << nv;
        let base = *g.pick(&[0.0, 1.0, 0.5]);
        let flat = g.coin();
        let mut mat: Vec<f64> = (0..len).map(|_| if flat { base } else { g.dyadic(0, 2, 4) }).collect();
        let on_diag = |i: usize| !v.is_diag() && i / tn == i % tn;
        let nspec = g.range(1, 3) as usize;
        let want_neg = g.chance(1, 2);
        for j in 0..nspec {
            let i = g.below(len as u64) as usize;
            if v == Variant::NewOff && on_diag(i) {
                continue;
            }
            let x = if want_neg && j == 0 { *g.pick(&neg) } else { *g.pick(&pos) };
            let old = mat[i];
            mat[i] = x;
            if !mat.iter().all(|a| mat.iter().all(|b| exact_sub(*a, *b))) {
                mat[i] = old;
            }
        }
        if mat.iter().any(|x| *x < 0.0) {
            tiny_neg += 1;
        }
        if mat.iter().any(|a| mat.iter().any(|b| a != b && (a - b).abs() < 4.0 * e)) {
            tiny_boundary += 1;
        }
        run_case(v, &mat, &shuffled_vars(&mut g, nv), k % 5 == 0);
    }
    stat("tiny_stream_with_negative_entry", tiny_neg);
    stat("tiny_stream_with_tolerance_boundary_pair", tiny_boundary);
}

fn big_vars(g: &mut SplitMix64, nv: usize) -> Vec<usize> {
    let base = g.below(6) as usize;
    let mut ks: Vec<usize> = (0..3usize).collect();
    let mut out = vec![];
    for j in 0..nv {
        if j < 3 && g.chance(2, 3) {
            let i = g.below(ks.len() as u64) as usize;
            out.push(base + 64 * ks.remove(i)); // congruent modulo 64
        } else {
            let mut v = 6 + g.below(120) as usize;
            while out.contains(&v) {
                v += 1;
            }
            out.push(v);
        }
    }
    out
}

fn shuffled_vars(g: &mut SplitMix64, nv: usize) -> Vec<usize> {
    let mut pool: Vec<usize> = (0..nv + 1).collect();
    let mut out = vec![];
    for _ in 0..nv {
        let i = g.below(pool.len() as u64) as usize;
        out.push(pool.remove(i));
    }
    out
}
