//! Public-sampler side of the C02 / C08 harness bins: a shared recording RNG handle, the two samplers behind one
//! enum, generators, table snapshots + oracle, and the threshold bisection inside a public diagonal step.
#![allow(dead_code)]

use super::*;
use qmc::sse::fast_ops::{FastOp, FastOps};
use qmc::sse::*;
use rand::{Error, RngCore};
use std::cell::RefCell;
use std::rc::Rc;
use vh::*;

/// RNG handle shared between a sampler (and its clones) and the harness.
#[derive(Clone)]
pub struct SharedRng(pub Rc<RefCell<RecRng>>);
impl SharedRng {
    pub fn new(seed: u64) -> Self {
        SharedRng(Rc::new(RefCell::new(RecRng::new(seed))))
    }
    pub fn script(&self, words: Vec<u64>, seed: u64) {
        *self.0.borrow_mut() = RecRng::scripted(words, seed);
    }
    pub fn take_log(&self) -> Vec<u64> {
        self.0.borrow_mut().take_log()
    }
}
impl RngCore for SharedRng {
    fn next_u32(&mut self) -> u32 {
        self.0.borrow_mut().next_u32()
    }
    fn next_u64(&mut self) -> u64 {
        self.0.borrow_mut().next_u64()
    }
    fn fill_bytes(&mut self, dest: &mut [u8]) {
        self.0.borrow_mut().fill_bytes(dest)
    }
    fn try_fill_bytes(&mut self, dest: &mut [u8]) -> Result<(), Error> {
        self.0.borrow_mut().try_fill_bytes(dest)
    }
}
impl serde::Serialize for SharedRng {
    fn serialize<S: serde::Serializer>(&self, s: S) -> Result<S::Ok, S::Error> {
        s.serialize_unit()
    }
}

pub type IsingQ = DefaultQmcIsingGraph<SharedRng>;
pub type GenQ = DefaultQmc<SharedRng>;

#[derive(Clone)]
pub enum Smp {
    Ising(IsingQ, Vec<((usize, usize), f64)>),
    Gen(GenQ, Vec<RegBond>),
}

/// One registered interaction of a generic sampler: its variables and — when the harness registered it itself — the full
/// matrix it handed to `make_interaction` / `make_diagonal_interaction` (index = outputs ++ inputs, first variable most
/// significant: the documented convention). `None` for interactions the library built (`into_qmc`).
#[derive(Clone, Debug)]
pub struct RegBond {
    pub vars: Vec<usize>,
    pub mat: Option<Vec<f64>>,
}
pub fn reg(vars: Vec<usize>, mat: Vec<f64>) -> RegBond {
    RegBond { vars, mat: Some(mat) }
}
pub fn full_from_diag(d: &[f64]) -> Vec<f64> {
    let dim = d.len();
    let mut m = vec![0.0; dim * dim];
    for s in 0..dim {
        m[s * dim + s] = d[s];
    }
    m
}

/// `Interaction::at` of every registered interaction returns the registered entry for every input/output pattern
/// (documented index: outputs ++ inputs, first variable most significant; diagonal tables: inputs only).
pub fn check_registered(smp: &Smp) -> Result<(), String> {
    if let Smp::Gen(q, regs) = smp {
        for (b, (int, rb)) in q.get_bonds().iter().zip(regs.iter()).enumerate() {
            if let Some(mat) = &rb.mat {
                let pats = patterns(rb.vars.len());
                let dim = pats.len();
                for (oi, o) in pats.iter().enumerate() {
                    for (ii, i) in pats.iter().enumerate() {
                        let got = int.at(i, o).unwrap_or(f64::NAN);
                        if got != mat[oi * dim + ii] {
                            return Err(format!(
                                "interaction {} on variables {:?}: at(inputs {}, outputs {}) = {} but the registered matrix element is {}",
                                b, rb.vars, bits(i), bits(o), got, mat[oi * dim + ii]
                            ));
                        }
                    }
                }
            }
        }
    }
    Ok(())
}

pub fn patterns(n: usize) -> Vec<Vec<bool>> {
    (0..(1usize << n)).map(|i| (0..n).map(|b| (i >> (n - 1 - b)) & 1 == 1).collect()).collect()
}

impl Smp {
    pub fn slots(&self) -> Vec<Option<FastOp>> {
        let m: &FastOps = match self {
            Smp::Ising(q, _) => q.get_manager_ref(),
            Smp::Gen(q, _) => q.get_manager_ref(),
        };
        (0..m.get_cutoff()).map(|p| m.get_pth(p).cloned()).collect()
    }
    pub fn state(&self) -> Vec<bool> {
        match self {
            Smp::Ising(q, _) => q.clone_state(),
            Smp::Gen(q, _) => q.clone_state(),
        }
    }
    pub fn set_cutoff(&mut self, cutoff: usize) {
        match self {
            Smp::Ising(q, _) => q.set_cutoff(cutoff),
            Smp::Gen(q, _) => q.set_cutoff(cutoff),
        }
    }
    pub fn rvb_sweep(&mut self) {
        if let Smp::Ising(q, _) = self {
            q.single_rvb_sweep(None);
        }
    }
    pub fn cluster_step(&mut self) {
        if let Smp::Ising(q, _) = self {
            q.single_cluster_step();
        }
    }
    pub fn get_n(&self) -> usize {
        match self {
            Smp::Ising(q, _) => q.get_n(),
            Smp::Gen(q, _) => QmcStepper::get_n(q),
        }
    }
    pub fn offset(&self) -> f64 {
        match self {
            Smp::Ising(q, _) => q.get_offset(),
            Smp::Gen(q, _) => q.get_offset(),
        }
    }
    pub fn cutoff(&self) -> usize {
        match self {
            Smp::Ising(q, _) => q.get_cutoff(),
            Smp::Gen(q, _) => q.get_cutoff(),
        }
    }
    pub fn sweep(&mut self, beta: f64) {
        match self {
            Smp::Ising(q, _) => q.single_diagonal_step(beta),
            Smp::Gen(q, _) => q.diagonal_update(beta),
        }
    }
    pub fn timestep(&mut self, beta: f64) {
        match self {
            Smp::Ising(q, _) => {
                q.timestep(beta);
            }
            Smp::Gen(q, _) => {
                q.timestep(beta);
            }
        }
    }
    /// the Hamiltonian as the sampler itself evaluates it (public `hamiltonian` / `Interaction::at`)
    pub fn bonds(&self) -> Vec<TableBond> {
        match self {
            Smp::Ising(q, edges) => {
                let info = q.make_haminfo();
                let nvars = q.get_nvars();
                let snap = serde_json::to_value(q).unwrap();
                let h = snap["longitudinal"].as_f64().unwrap();
                let mut out = vec![];
                let mut push = |vars: Vec<usize>, constant: bool, b: usize| {
                    let pats = patterns(vars.len());
                    let mut mat = vec![];
                    for o in &pats {
                        for i in &pats {
                            mat.push(IsingQ::hamiltonian(&info, &vars, b, i, o));
                        }
                    }
                    out.push(TableBond { vars, constant, mat });
                };
                for (b, ((x, y), _)) in edges.iter().enumerate() {
                    push(vec![*x, *y], false, b);
                }
                for v in 0..nvars {
                    push(vec![v], true, edges.len() + v);
                }
                if h.abs() > f64::EPSILON {
                    for v in 0..nvars {
                        push(vec![v], false, edges.len() + nvars + v);
                    }
                }
                out
            }
            // the reference is what was REGISTERED (the matrices handed to the constructors); `Interaction::at` is only used for
            // interactions the library built itself (`into_qmc`) — `check_registered` compares the two
            Smp::Gen(q, regs) => q
                .get_bonds()
                .iter()
                .zip(regs.iter())
                .map(|(int, rb)| {
                    let mat = match &rb.mat {
                        Some(m) => m.clone(),
                        None => {
                            let pats = patterns(rb.vars.len());
                            let mut mat = vec![];
                            for o in &pats {
                                for i in &pats {
                                    mat.push(int.at(i, o).unwrap());
                                }
                            }
                            mat
                        }
                    };
                    TableBond { vars: rb.vars.clone(), constant: int.is_constant(), mat }
                })
                .collect(),
        }
    }
    /// stored bond-weight table (max-weight column) read from the serde snapshot
    pub fn table(&self) -> Option<(Vec<f64>, Vec<f64>)> {
        let snap = match self {
            Smp::Ising(q, _) => serde_json::to_value(q).unwrap(),
            Smp::Gen(q, _) => serde_json::to_value(q).unwrap(),
        };
        table_of_value(&snap)
    }
    pub fn bond_weights(&self) -> Option<BondWeights> {
        self.table().map(|(mx, _)| BondWeights::new(mx))
    }
}

pub fn show_table(t: &Option<(Vec<f64>, Vec<f64>)>) -> String {
    match t {
        None => "none".into(),
        Some((mx, _)) => rats(mx),
    }
}

pub fn expected_table(bonds: &[TableBond]) -> Vec<f64> {
    bonds
        .iter()
        .map(|tb| {
            let dim = 1usize << tb.vars.len();
            (0..dim).map(|s| tb.mat[s * dim + s]).fold(0.0, f64::max)
        })
        .collect()
}

pub fn check_table(t: &Option<(Vec<f64>, Vec<f64>)>, bonds: &[TableBond], must_exist: bool) -> Result<(), String> {
    match t {
        None if must_exist => Err("heat-bath is on and a diagonal update ran, but no table is stored".into()),
        None => Ok(()),
        Some((mx, cum)) => {
            let want = expected_table(bonds);
            if *mx != want {
                return Err(format!("stored table {:?} is not the table of the current interactions {:?}", mx, want));
            }
            let mut run = 0.0;
            for (m, c) in mx.iter().zip(cum.iter()) {
                run += m;
                if *c != run {
                    return Err(format!("cumulative column {:?} is not the running sum of {:?}", cum, mx));
                }
            }
            Ok(())
        }
    }
}

// ------------------------------------------------------------------------------------------------
// sampler generators
// ------------------------------------------------------------------------------------------------

pub const JS: [f64; 8] = [-2.0, -1.0, -0.5, 0.25, 0.5, 1.0, 1.5, 3.0];

#[derive(Clone, Debug)]
pub struct IsingSpec {
    pub nvars: usize,
    pub edges: Vec<((usize, usize), f64)>,
    pub gamma: f64,
    pub h: f64,
    pub cutoff: usize,
    pub state: Vec<bool>,
}
impl IsingSpec {
    pub fn desc(&self) -> String {
        let etok: Vec<String> = self.edges.iter().map(|((a, b), j)| format!("{}:{}:{}", a, b, rat(*j))).collect();
        format!("{} {} {}", etok.join(","), rat(self.gamma), rat(self.h))
    }
    pub fn build(&self, rng: &SharedRng) -> IsingQ {
        IsingQ::new_with_rng(self.edges.clone(), self.gamma, self.h, self.cutoff, rng.clone(), Some(self.state.clone()))
    }
}

pub fn gen_ising_spec(g: &mut SplitMix64) -> IsingSpec {
    let nvars = g.range(2, 4) as usize;
    let mut edges: Vec<((usize, usize), f64)> = vec![];
    for a in 0..nvars {
        let b = (a + 1) % nvars;
        if a < b || nvars > 2 {
            if a != b && !(nvars == 2 && a == 1) {
                edges.push(((a, b), *g.pick(&JS)));
            }
        }
    }
    if nvars >= 3 && g.coin() {
        edges.pop();
    }
    // variable nvars-1 must appear in some edge (nvars is inferred from the edges)
    if !edges.iter().any(|((a, b), _)| *a == nvars - 1 || *b == nvars - 1) {
        edges.push(((nvars - 2, nvars - 1), *g.pick(&JS)));
    }
    let gamma = *g.pick(&[0.25, 0.5, 1.0, 2.0]);
    let h = *g.pick(&[0.0, 0.0, 0.25, -0.5, 1.0]);
    let cutoff = g.range(1, 6) as usize;
    let state: Vec<bool> = (0..nvars).map(|_| g.coin()).collect();
    IsingSpec { nvars, edges, gamma, h, cutoff, state }
}

/// frustrated antiferromagnet: triangle, or square with a diagonal, all J > 0 of unequal magnitude, no field
pub fn gen_frustrated_spec(g: &mut SplitMix64) -> IsingSpec {
    let nvars = g.range(3, 4) as usize;
    let js = [0.5, 0.75, 1.0, 1.25, 1.5];
    let mut edges: Vec<((usize, usize), f64)> = (0..nvars).map(|a| ((a, (a + 1) % nvars), *g.pick(&js))).collect();
    if nvars == 4 {
        edges.push(((0, 2), *g.pick(&js)));
        if g.coin() {
            edges.push(((1, 3), *g.pick(&js)));
        }
    }
    let gamma = *g.pick(&[0.5, 0.75, 1.0]);
    IsingSpec { nvars, edges, gamma, h: 0.0, cutoff: g.range(1, 6) as usize, state: (0..nvars).map(|_| g.coin()).collect() }
}

/// A partner that passes `can_swap_managers` (same edges, same signs of J and h) but has other magnitudes of
/// J, Γ and h — i.e. a different bond-weight table.
pub fn gen_partner_spec(g: &mut SplitMix64, a: &IsingSpec) -> IsingSpec {
    let f = [0.25, 0.5, 0.5, 1.0, 2.0, 4.0];
    let edges = a.edges.iter().map(|(e, j)| (*e, j * *g.pick(&f))).collect();
    let gamma = a.gamma * *g.pick(&f);
    let h = a.h * *g.pick(&[0.5, 1.0, 2.0]);
    IsingSpec { nvars: a.nvars, edges, gamma, h, cutoff: g.range(1, 6) as usize, state: (0..a.nvars).map(|_| g.coin()).collect() }
}

pub fn gen_ising(g: &mut SplitMix64, rng: &SharedRng) -> (Smp, String) {
    let spec = gen_ising_spec(g);
    let q = spec.build(rng);
    let desc = format!("{} {}", spec.nvars, spec.desc());
    (Smp::Ising(q, spec.edges), desc)
}

pub fn table_of_ising(q: &IsingQ) -> Option<(Vec<f64>, Vec<f64>)> {
    table_of_value(&serde_json::to_value(q).unwrap())
}

pub fn table_of_value(snap: &serde_json::Value) -> Option<(Vec<f64>, Vec<f64>)> {
    let t = &snap["bond_weights"];
    if t.is_null() {
        return None;
    }
    let rows = t["max_weight_and_cumulative"].as_array().unwrap();
    Some((rows.iter().map(|r| r[1].as_f64().unwrap()).collect(), rows.iter().map(|r| r[2].as_f64().unwrap()).collect()))
}

/// a random valid interaction: (full matrix over outs++ins, vars, use the diagonal constructor)
pub fn gen_interaction(g: &mut SplitMix64, nvars: usize) -> (Vec<f64>, Vec<usize>, bool) {
    let k = gen_arity(g, nvars);
    let mut vars: Vec<usize> = vec![];
    while vars.len() < k {
        let v = g.below(nvars as u64) as usize;
        if !vars.contains(&v) {
            vars.push(v);
        }
    }
    let dim = 1usize << k;
    if k >= 3 {
        let r = g.below(4);
        let mut mat = vec![0.0; dim * dim];
        // diagonal: maximum at a controlled sub-state (r = 0), or pairwise DISTINCT entries (i+1)/8 in random order with a few
        // zeros — not symmetric under reversing the variable order, zeros at non-palindromic patterns included
        let d: Vec<f64> = if r == 0 {
            gen_multi_diag(g, k)
        } else {
            let mut perm: Vec<usize> = (0..dim).collect();
            for i in (1..dim).rev() {
                perm.swap(i, g.below(i as u64 + 1) as usize);
            }
            (0..dim).map(|s| if g.chance(1, 5) { 0.0 } else { (perm[s] + 1) as f64 / 8.0 }).collect()
        };
        for s in 0..dim {
            mat[s * dim + s] = d[s];
        }
        // full-matrix constructor (64 / 256 entries) with a few off-diagonal elements for 3 variables, rarely for 4
        let full = r == 3 && (k == 3 || g.chance(1, 4));
        if full {
            for _ in 0..g.range(1, 6) {
                let (o, i) = (g.below(dim as u64) as usize, g.below(dim as u64) as usize);
                if o != i {
                    mat[o * dim + i] = *g.pick(&[0.25, 0.5, 1.0]);
                }
            }
            stat(&format!("multivar_full_matrix_k{}", k), 1);
        } else if r != 0 {
            stat(&format!("multivar_distinct_diagonal_k{}", k), 1);
        }
        return (mat, vars, !full);
    }
    let diag_ctor = g.chance(1, 3);
    let constant = !diag_ctor && k == 1 && g.chance(1, 2);
    let cw = *g.pick(&[0.5, 1.0, 2.0]);
    let mut mat = vec![0.0; dim * dim];
    for o in 0..dim {
        for i in 0..dim {
            mat[o * dim + i] = if constant {
                cw
            } else if o == i {
                *g.pick(&[0.0, 0.125, 0.25, 0.5, 0.75, 1.0, 1.5, 2.0, 3.0])
            } else if diag_ctor {
                0.0
            } else {
                *g.pick(&[0.0, 0.0, 0.5, 1.0])
            };
        }
    }
    (mat, vars, diag_ctor)
}

pub fn add_interaction(q: &mut GenQ, mat: &[f64], vars: &[usize], diag_ctor: bool) -> Result<(), String> {
    if diag_ctor {
        let dim = 1usize << vars.len();
        let d: Vec<f64> = (0..dim).map(|s| mat[s * dim + s]).collect();
        q.make_diagonal_interaction(d, vars.to_vec())
    } else {
        q.make_interaction(mat.to_vec(), vars.to_vec())
    }
}

pub fn gen_generic(g: &mut SplitMix64, rng: &SharedRng) -> Smp {
    let nvars = g.range(1, 4) as usize;
    let state: Vec<bool> = (0..nvars).map(|_| g.coin()).collect();
    let mut q = GenQ::new_with_state(nvars, rng.clone(), state, g.coin());
    let mut vars_list = vec![];
    // every variable gets a constant single-site term (so that off-diagonal ops appear), plus random bonds
    for v in 0..nvars {
        if g.chance(3, 4) {
            let w = *g.pick(&[0.5, 1.0]);
            q.make_interaction(vec![w; 4], vec![v]).unwrap();
            vars_list.push(reg(vec![v], vec![w; 4]));
        }
    }
    for _ in 0..g.range(1, 3) {
        let (mat, vars, d) = gen_interaction(g, nvars);
        add_interaction(&mut q, &mat, &vars, d).unwrap();
        vars_list.push(reg(vars, mat));
    }
    Smp::Gen(q, vars_list)
}

/// generic sampler with one diagonal term on 3 or 4 variables whose unique maximum sits at a uniformly chosen
/// sub-state, started in that sub-state (transverse terms only on some variables, so it often stays there)
pub fn gen_generic_multi(g: &mut SplitMix64, rng: &SharedRng) -> Smp {
    let nvars = g.range(3, 4) as usize;
    let k = if nvars == 4 && g.coin() { 4 } else { 3 };
    let mut vars: Vec<usize> = vec![];
    while vars.len() < k {
        let v = g.below(nvars as u64) as usize;
        if !vars.contains(&v) {
            vars.push(v);
        }
    }
    let dim = 1usize << k;
    let top = *g.pick(&[1.5, 2.0, 3.0, 4.0]);
    let m = g.below(dim as u64) as usize;
    let d: Vec<f64> = (0..dim).map(|s| if s == m { top } else { *g.pick(&[0.0, 0.125, 0.25, 0.5, 0.75, 1.0]) }).collect();
    stat(&format!("multivar_bond_k{}_argmax_{}", k, m), 1);
    let mut state: Vec<bool> = (0..nvars).map(|_| g.coin()).collect();
    for (pos, v) in vars.iter().enumerate() {
        state[*v] = (m >> (k - 1 - pos)) & 1 == 1;
    }
    let mut q = GenQ::new_with_state(nvars, rng.clone(), state, g.coin());
    let mut vars_list = vec![];
    q.make_diagonal_interaction(d.clone(), vars.clone()).unwrap();
    vars_list.push(reg(vars, full_from_diag(&d)));
    for v in 0..nvars {
        if g.chance(1, 3) {
            q.make_interaction(vec![0.5; 4], vec![v]).unwrap();
            vars_list.push(reg(vec![v], vec![0.5; 4]));
        }
    }
    if g.coin() {
        let (mat, vars, dg) = gen_interaction(g, nvars);
        add_interaction(&mut q, &mat, &vars, dg).unwrap();
        vars_list.push(reg(vars, mat));
    }
    Smp::Gen(q, vars_list)
}

pub fn enable_heatbath(s: &mut Smp, on: bool) {
    match s {
        Smp::Ising(q, _) => q.set_enable_heatbath(on),
        Smp::Gen(q, _) => q.set_do_heatbath(on),
    }
}

pub fn real_columns(bonds: &[TableBond]) -> (Vec<f64>, Vec<f64>) {
    table_columns(&real_table(bonds))
}

pub fn cfg_of(s: &Smp, beta: f64) -> Cfg {
    let state = s.state();
    Cfg { bonds: s.bonds(), nvars: state.len(), state, slots: s.slots(), cutoff: s.cutoff(), beta }
}

pub fn make_sampler(g: &mut SplitMix64, rng: &SharedRng) -> (Smp, &'static str, Option<IsingQ>) {
    let r = g.below(8);
    if r == 0 {
        // an Ising sampler that will receive the operator string of a partner with other coupling magnitudes
        let sa = gen_ising_spec(g);
        let sb = gen_partner_spec(g, &sa);
        let partner = sb.build(&SharedRng::new(g.next()));
        (Smp::Ising(sa.build(rng), sa.edges), "ising_swapped", Some(partner))
    } else if r == 1 {
        // frustrated lattice with RVB updates: RVB moves get accepted and rotate constant ops at cluster boundaries
        let spec = gen_frustrated_spec(g);
        let mut q = spec.build(rng);
        q.set_run_rvb(true);
        (Smp::Ising(q, spec.edges), "ising_frustrated_rvb", None)
    } else if r < 4 {
        let (mut s, _) = gen_ising(g, rng);
        let rvb = g.coin();
        if rvb {
            if let Smp::Ising(q, _) = &mut s {
                q.set_run_rvb(true);
            }
        }
        (s, if rvb { "ising_rvb" } else { "ising" }, None)
    } else if g.chance(1, 3) {
        (gen_generic_multi(g, rng), "generic_manybody", None)
    } else {
        (gen_generic(g, rng), "generic", None)
    }
}

/// for kind `ising_swapped`, after heat-bath has been configured: warm both samplers up and exchange the
/// operator strings (an odd number of swaps), as a tempering step between different Hamiltonians does
pub fn swap_in_partner(g: &mut SplitMix64, smp: &mut Smp, partner: &mut Option<IsingQ>, heat: bool, beta: f64) -> bool {
    if let (Smp::Ising(q, _), Some(p)) = (smp, partner.as_mut()) {
        p.set_enable_heatbath(heat);
        for _ in 0..g.range(1, 3) {
            if catch(|| { q.timestep(beta); p.timestep(beta); }).is_err() {
                return false;
            }
        }
        for _ in 0..(2 * g.range(0, 1) + 1) {
            if g.coin() {
                q.swap_manager_and_state(p);
            } else {
                p.swap_manager_and_state(q);
            }
        }
    }
    true
}

// ------------------------------------------------------------------------------------------------
// mode prob
// ------------------------------------------------------------------------------------------------

/// What the bisection case should do beyond the default.
#[derive(Clone, Copy, Default)]
pub struct ProbOpts {
    /// bisect this bond (if it has positive weight at the slot) instead of a random one
    pub bond: Option<usize>,
    /// the model derives the table from the CURRENT Hamiltonian (`gprob`) instead of receiving the stored one (`hprob`)
    pub table_from_ham: bool,
    /// the cutoff the sampler must sweep with (e.g. the Ising sampler's cutoff at conversion)
    pub expect_cutoff: Option<usize>,
    /// if `bond` has weight 0 at the slot: check that no word inserts it (`gzero`) instead of dropping the case
    pub zero_ok: bool,
    /// insert this bond at the first empty slot before k (so that its matrix element is evaluated earlier in the same sweep)
    pub pre_bond: Option<usize>,
}

/// `get_manager_mut().set_cutoff(len + extra)`: the container becomes longer than the sampler's sweep. Ising sampler only.
pub fn grow_manager(smp: &mut Smp, extra: usize) -> bool {
    if let Smp::Ising(q, _) = smp {
        let len = q.get_manager_ref().get_cutoff();
        q.get_manager_mut().set_cutoff(len + extra);
        true
    } else {
        false
    }
}

/// every stored operator's label agrees with its content: `is_diagonal()` == (inputs == outputs). Ising sampler only
/// (the generic sampler's loop update may legitimately store `Offdiagonal(x, x)`).
pub fn check_labels(smp: &Smp, when: &str) -> Result<(), String> {
    if let Smp::Ising(..) = smp {
        for (p, o) in smp.slots().iter().enumerate() {
            if let Some(op) = o {
                if op.is_diagonal() != (op.get_inputs() == op.get_outputs()) {
                    return Err(format!("op at p={} has inputs {} outputs {} but is_diagonal() = {} ({})", p, bits(op.get_inputs()), bits(op.get_outputs()), op.is_diagonal(), when));
                }
            }
        }
    }
    Ok(())
}

/// `into_qmc`: the generic sampler that continues the Ising sampler's run; returns it with the Ising cutoff at conversion
pub fn convert_to_generic(smp: Smp) -> Option<(Smp, usize)> {
    if let Smp::Ising(q, edges) = smp {
        let l = q.get_cutoff();
        let nvars = q.get_nvars();
        let h = serde_json::to_value(&q).unwrap()["longitudinal"].as_f64().unwrap();
        let mut vars_list: Vec<RegBond> = edges.iter().map(|((a, b), _)| RegBond { vars: vec![*a, *b], mat: None }).collect();
        for v in 0..nvars {
            vars_list.push(RegBond { vars: vec![v], mat: None });
        }
        if h.abs() > f64::EPSILON {
            for v in 0..nvars {
                vars_list.push(RegBond { vars: vec![v], mat: None });
            }
        }
        let gq: GenQ = catch(|| q.into_qmc()).ok()?;
        Some((Smp::Gen(gq, vars_list), l))
    } else {
        None
    }
}

/// One examined public diagonal step: trajectory case (`gsweep`: heat-bath with the table of the current Hamiltonian,
/// `msweep`: Metropolis) with the model-free oracle: count and labels before/after, structural sweep oracle, stored table,
/// optionally the cutoff the sweep has to use, and — for `drain` (β = 1e-12) — that every operator with inputs == outputs
/// anywhere in the string is gone afterwards. Returns false if the step panicked.
pub fn emit_sweep(smp: &mut Smp, rng: &SharedRng, beta: f64, label: &str, heat: bool, expect_cutoff: Option<usize>, drain: bool) -> bool {
    let beta = if drain { 1e-12 } else { beta };
    let mut pre = check_registered(smp).and_then(|_| check_count(smp, "before the diagonal step")).and_then(|_| check_labels(smp, "before the diagonal step"));
    let cfg = cfg_of(smp, beta);
    if let (Ok(()), Some(l)) = (&pre, expect_cutoff) {
        if cfg.cutoff != l {
            pre = Err(format!("the sampler sweeps with cutoff {} but the operator string was built with cutoff {}", cfg.cutoff, l));
        }
    }
    // fresh random words (an earlier bisection may have left a script of extreme words behind)
    static FRESH: std::sync::atomic::AtomicU64 = std::sync::atomic::AtomicU64::new(0x5EED);
    rng.script(vec![], FRESH.fetch_add(0x9E3779B97F4A7C15, std::sync::atomic::Ordering::Relaxed));
    let head = if heat { "gsweep" } else { "msweep" };
    let base = format!("{} {} {} {} {} {}", head, show_table_ham(&cfg.bonds), rat(beta), cfg.cutoff, bits(&cfg.state), show_cfg_slots(&cfg.slots));
    rng.take_log();
    if let Err(p) = catch(|| smp.sweep(beta)) {
        emit(true, &format!("{} -", base), "PANIC", Some(Err(format!("diagonal step panicked ({}): {}", label, p))));
        return false;
    }
    let log = rng.take_log();
    let out = RunOut { slots: smp.slots(), state: smp.state(), n: smp.get_n(), log: log.clone(), calls: vec![] };
    let mut oracle = pre.and_then(|_| sweep_oracle(&cfg, &out));
    if oracle.is_ok() && heat {
        oracle = check_table(&smp.table(), &cfg.bonds, true);
    }
    if oracle.is_ok() {
        oracle = check_labels(smp, "after the diagonal step");
    }
    if oracle.is_ok() && drain {
        if let Some((p, _)) = out.slots.iter().enumerate().find(|(_, o)| o.as_ref().map(|op| op.get_inputs() == op.get_outputs()).unwrap_or(false)) {
            oracle = Err(format!("diagonal step at beta = 1e-12 left an operator with inputs == outputs at p={} (string length {}, cutoff {})", p, out.slots.len(), cfg.cutoff));
        }
    }
    stat(&format!("sweep_{}_{}{}", label, head, if drain { "_drain" } else { "" }), 1);
    emit(true, &format!("{} {}", base, words(&log)), &format!("{} {} ok", show_cfg_slots(&out.slots), bits(&out.state)), Some(oracle));
    true
}


/// Snapshot / restore idiom: the sampler's operator string is collected with `get_pth` and re-installed through the
/// public `FastOps::new_from_ops` (sparse list of (p, op)). Ising sampler only (`get_manager_mut`).
pub fn restore_from_ops(smp: &mut Smp) -> bool {
    if let Smp::Ising(q, _) = smp {
        let nvars = q.get_nvars();
        let ops: Vec<(usize, FastOp)> = {
            let m = q.get_manager_ref();
            (0..m.get_cutoff()).filter_map(|p| m.get_pth(p).cloned().map(|o| (p, o))).collect()
        };
        *q.get_manager_mut() = FastOps::new_from_ops(nvars, ops);
        true
    } else {
        false
    }
}

/// `get_n()` must be the number of operators found by scanning the string
pub fn check_count(smp: &Smp, when: &str) -> Result<(), String> {
    let scan = count_ops(&smp.slots());
    if smp.get_n() != scan {
        Err(format!("get_n() = {} but scanning the string finds {} operators ({})", smp.get_n(), scan, when))
    } else {
        Ok(())
    }
}

pub fn prob_case(g: &mut SplitMix64) -> bool {
    let rng = SharedRng::new(g.next());
    let (mut smp, kind, mut partner) = make_sampler(g, &rng);
    enable_heatbath(&mut smp, true);
    let beta = *g.pick(&[0.25, 0.5, 1.0, 2.0]);
    if !swap_in_partner(g, &mut smp, &mut partner, true, beta) {
        return false;
    }
    for _ in 0..g.range(2, 6) {
        if catch(|| smp.timestep(beta)).is_err() {
            return false;
        }
    }
    let mut kind = kind.to_string();
    if g.chance(1, 3) && restore_from_ops(&mut smp) {
        kind.push_str("_restored");
    }
    if let Smp::Gen(..) = smp {
        // the generic sampler builds the table inside diagonal_update; make sure it exists
        if smp.table().is_none() {
            return false;
        }
    }
    prob_on(g, &rng, smp, &kind, beta, ProbOpts::default())
}

/// A bond whose weight at slot k is 0 must never be inserted there: attempt word 0, u word 0 and 512 evenly spaced bond words.
fn prob_zero(rng: &SharedRng, base: &Smp, cfg: &Cfg, kind: &str, beta: f64, k: usize, b: usize, seed: u64) -> bool {
    let before = padded(cfg);
    let prefix: Vec<u64> = before[..k].iter().filter(|o| !is_offdiag(o)).map(|_| u64::MAX).collect();
    let n_k = count_ops(&before);
    let input = format!(
        "gzero {} {} {} {} {} {} {} {}",
        show_table_ham(&cfg.bonds),
        rat(beta),
        cfg.cutoff,
        bits(&cfg.state),
        show_cfg_slots(&cfg.slots),
        words(&prefix),
        k,
        b
    );
    let mut inserted = None;
    let mut any = 0;
    for i in 0..512u64 {
        let x = (i << 55) + (1u64 << 54);
        let mut s = base.clone();
        let mut sc = prefix.clone();
        sc.extend_from_slice(&[0, 0, x]);
        sc.extend_from_slice(&vec![u64::MAX; cfg.cutoff + 8]);
        rng.script(sc, seed);
        if catch(|| s.sweep(beta)).is_err() {
            return false;
        }
        let sl = s.slots();
        if sl[..k] != before[..k] {
            emit(true, &input, "unlocatable", None);
            return true;
        }
        if let Some(op) = &sl[k] {
            any += 1;
            if op.get_bond() == b {
                inserted = Some(x);
            }
        }
    }
    let oracle = match inserted {
        Some(x) => Err(format!("bond {} has weight 0 at slot {} but bond word {} inserts it", b, k, x)),
        None if any == 0 => Err("no bond word inserted anything although the table total is positive".to_string()),
        None => Ok(()),
    };
    stat(&format!("prob_zero_weight_{}", kind), 1);
    emit(true, &input, &format!("{} {}", n_k, approx(if inserted.is_some() { 1.0 } else { 0.0 })), Some(oracle));
    true
}

/// Threshold bisection of the heat-bath draws of one empty slot inside the sampler's public diagonal step, and of
/// the removal of the inserted operator in the next step. Emits one case; returns false if the case was dropped.
pub fn prob_on(g: &mut SplitMix64, rng: &SharedRng, smp: Smp, kind: &str, beta: f64, opts: ProbOpts) -> bool {
    if let Err(e) = check_count(&smp, "before the diagonal step") {
        emit(true, &format!("count-mismatch {}", kind), "BAD", Some(Err(e)));
        return true;
    }
    if let Err(e) = check_labels(&smp, "before the diagonal step") {
        emit(true, &format!("label-mismatch {}", kind), "BAD", Some(Err(e)));
        return true;
    }
    if let Err(e) = check_registered(&smp) {
        emit(true, &format!("registered-mismatch {} {}", kind, show_table_ham(&smp.bonds())), "BAD", Some(Err(e)));
        return true;
    }
    let base = smp.clone();
    let cfg = cfg_of(&base, beta);
    let l = cfg.cutoff;
    if let Some(want_l) = opts.expect_cutoff {
        if l != want_l {
            emit(
                true,
                &format!("cutoff-mismatch {} {} {} {}", kind, l, bits(&cfg.state), show_cfg_slots(&cfg.slots)),
                "BAD",
                Some(Err(format!("the sampler sweeps with cutoff {} but the operator string was built with cutoff {}", l, want_l))),
            );
            return true;
        }
    }
    let before = padded(&cfg);
    let (mx, cum) = if opts.table_from_ham {
        // the table the sampler has to use is the one of its current interaction list
        let mx = expected_table(&cfg.bonds);
        let mut run = 0.0;
        let cum: Vec<f64> = mx.iter().map(|m| { run += m; run }).collect();
        (mx, cum)
    } else {
        match base.table() {
            Some(t) => t,
            None => return false,
        }
    };
    if *cum.last().unwrap() <= 0.0 {
        return false;
    }
    // only slots the sweep visits (the container may be longer than the sampler's cutoff)
    let mut empties: Vec<usize> = (0..before.len().min(l)).filter(|p| before[*p].is_none()).collect();
    if opts.pre_bond.is_some() && !empties.is_empty() {
        empties.remove(0); // the first empty slot receives the earlier operator
    }
    if empties.is_empty() {
        return false;
    }
    let k = *g.pick(&empties);
    let st_k = state_at(&cfg, k);
    let cands: Vec<usize> = (0..cfg.bonds.len()).filter(|b| diag_weight(&cfg.bonds[*b], &substate(&st_k, &cfg.bonds[*b].vars)) > 0.0).collect();
    if cands.is_empty() {
        return false;
    }
    let multi: Vec<usize> = cands
        .iter()
        .cloned()
        .filter(|b| {
            let tb = &cfg.bonds[*b];
            tb.vars.len() >= 3 && unique_argmax(tb) == Some(bit_index(substate(&st_k, &tb.vars).iter()))
        })
        .collect();
    let b = if let Some(bb) = opts.bond {
        if !cands.contains(&bb) {
            if opts.zero_ok && opts.table_from_ham && bb < cfg.bonds.len() {
                return prob_zero(rng, &base, &cfg, kind, beta, k, bb, g.next());
            }
            return false;
        }
        bb
    } else if !multi.is_empty() && g.chance(3, 4) {
        stat(&format!("prob_multivar_at_argmax_{}", bit_index(substate(&st_k, &cfg.bonds[multi[0]].vars).iter())), 1);
        multi[0]
    } else {
        // prefer a many-body bond: its weight lookup depends on the order of its variables
        let many: Vec<usize> = cands.iter().cloned().filter(|b| cfg.bonds[*b].vars.len() >= 3).collect();
        if !many.is_empty() && g.coin() {
            *g.pick(&many)
        } else {
            *g.pick(&cands)
        }
    };
    {
        let sub = substate(&st_k, &cfg.bonds[b].vars);
        if sub.len() >= 3 {
            let rev: Vec<bool> = sub.iter().rev().cloned().collect();
            stat(if rev != sub { "prob_manybody_bond_nonpalindromic_substate" } else { "prob_manybody_bond_palindromic_substate" }, 1);
        }
    }
    let w = diag_weight(&cfg.bonds[b], &substate(&st_k, &cfg.bonds[b].vars));
    // prefix: one word per visited slot before k; 0 removes a diagonal op, MAX keeps / leaves empty
    let mut groups: Vec<Vec<u64>> = vec![];
    let mut expect: Vec<Option<FastOp>> = vec![];
    let mut removed = 0;
    for o in before[..k].iter() {
        match o {
            Some(op) if !op.is_diagonal() => {
                groups.push(vec![]);
                expect.push(o.clone());
            }
            Some(_) => {
                if g.coin() {
                    groups.push(vec![0u64]);
                    expect.push(None);
                    removed += 1;
                } else {
                    groups.push(vec![u64::MAX]);
                    expect.push(o.clone());
                }
            }
            None => {
                groups.push(vec![u64::MAX]);
                expect.push(None);
            }
        }
    }
    let mut inserted_before = 0;
    if let Some(c) = opts.pre_bond {
        // attempt word 0, u word 0 and a bond word that selects c at the first empty slot e < k
        let e = match (0..k).find(|p| before[*p].is_none()) {
            Some(e) => e,
            None => return false,
        };
        let head: Vec<u64> = groups[..e].iter().flatten().cloned().collect();
        let mut found = None;
        for i in 0..512u64 {
            let x = (i << 55) + (1u64 << 54);
            let mut sm = base.clone();
            let mut sc = head.clone();
            sc.extend_from_slice(&[0, 0, x]);
            sc.extend_from_slice(&vec![u64::MAX; l + 8]);
            rng.script(sc, 1);
            if catch(|| sm.sweep(beta)).is_err() {
                return false;
            }
            if let Some(op) = &sm.slots()[e] {
                if op.get_bond() == c {
                    found = Some((x, op.clone()));
                    break;
                }
            }
        }
        match found {
            Some((x, op)) => {
                groups[e] = vec![0, 0, x];
                expect[e] = Some(op);
                inserted_before = 1;
            }
            None => return false,
        }
    }
    let prefix: Vec<u64> = groups.iter().flatten().cloned().collect();
    let n_k = count_ops(&before) - removed + inserted_before;
    let seed = g.next();
    let tail_keep = vec![u64::MAX; l + 8];
    let run1 = |tail: &[u64]| -> Option<Smp> {
        let mut s = base.clone();
        let mut sc = prefix.clone();
        sc.extend_from_slice(tail);
        sc.extend_from_slice(&tail_keep);
        rng.script(sc, seed);
        catch(|| s.sweep(beta)).ok().map(|_| s)
    };
    let input = format!(
        "{} {} {} {} {} {} {} {} {}",
        if opts.table_from_ham { "gprob".to_string() } else { format!("hprob {}", show_table_ham(&cfg.bonds)) },
        if opts.table_from_ham { show_table_ham(&cfg.bonds) } else { rats(&mx) },
        rat(beta),
        l,
        bits(&cfg.state),
        show_cfg_slots(&cfg.slots),
        words(&prefix),
        k,
        b
    );
    // the prefix script must have produced the prefix it was designed for
    let probe = match run1(&[u64::MAX]) {
        Some(s) => s,
        None => return false,
    };
    if probe.slots()[..k] != expect[..] || probe.slots()[k].is_some() {
        emit(true, &input, "unlocatable", None);
        return true;
    }
    let hit = |s: Option<Smp>| -> bool { s.map(|s| s.slots()[k].as_ref().map(|o| o.is_diagonal() && o.get_bond() == b).unwrap_or(false)).unwrap_or(false) };
    // --- interval of third words that select bond b (attempt word 0, u word 0)
    let grid = 512u64;
    let mut found = None;
    for i in 0..grid {
        let x = (i << 55) + (1u64 << 54);
        if hit(run1(&[0, 0, x])) {
            found = Some(x);
            break;
        }
    }
    let h0 = match found {
        Some(x) => x,
        None => {
            emit(true, &input, "bond-never-selected", Some(Err(format!("bond {} (table entry {}) was not selected by any of {} evenly spaced words", b, mx.get(b).cloned().unwrap_or(f64::NAN), grid))));
            return true;
        }
    };
    let lo: u128 = if hit(run1(&[0, 0, 0])) { 0 } else { first_true(0, h0, |x| hit(run1(&[0, 0, x]))) as u128 };
    let hi: u128 = if hit(run1(&[0, 0, u64::MAX])) { 1u128 << 64 } else { first_true(h0, u64::MAX, |x| !hit(run1(&[0, 0, x]))) as u128 };
    let p_pick = frac(hi - lo);
    let xb = (lo + (hi - lo) / 2) as u64;
    let p_att = frac(threshold_down(|x| hit(run1(&[x, 0, xb]))));
    let p_acc = frac(threshold_down(|u| hit(run1(&[0, u, xb]))));
    // --- removal in the next sweep of the very operator just inserted
    let s1 = match run1(&[0, 0, xb]) {
        Some(s) => s,
        None => return false,
    };
    if s1.cutoff() != l {
        stat("prob_cutoff_grew", 1);
        return false;
    }
    let before2 = {
        let c2 = cfg_of(&s1, beta);
        padded(&c2)
    };
    if count_ops(&before2) != n_k + 1 {
        emit(true, &input, "unlocatable", None);
        return true;
    }
    let prefix2: Vec<u64> = before2[..k].iter().filter(|o| !is_offdiag(o)).map(|_| u64::MAX).collect();
    let run2 = |x: u64| -> Option<Smp> {
        let mut s = s1.clone();
        let mut sc = prefix2.clone();
        sc.push(x);
        sc.extend_from_slice(&tail_keep);
        rng.script(sc, seed);
        catch(|| s.sweep(beta)).ok().map(|_| s)
    };
    match run2(u64::MAX) {
        Some(s) if s.slots()[..k] == before2[..k] => {}
        _ => {
            emit(true, &input, "unlocatable", None);
            return true;
        }
    }
    let p_rem = frac(threshold_down(|x| run2(x).map(|s| s.slots()[k].is_none()).unwrap_or(false)));
    let want = beta * w / ((l - n_k) as f64);
    let mut oracle = Ok(());
    if !(p_rem > 0.0) {
        oracle = Err(format!("removal probability measured as {}", p_rem));
    } else if !close(p_att * p_pick * p_acc / p_rem, want) {
        oracle = Err(format!(
            "p_insert/p_remove = {}*{}*{}/{} = {} but beta*w/(L-n) = {}*{}/({}-{}) = {}",
            p_att,
            p_pick,
            p_acc,
            p_rem,
            p_att * p_pick * p_acc / p_rem,
            beta,
            w,
            l,
            n_k,
            want
        ));
    }
    stat(&format!("prob_{}", kind), 1);
    stat(if w < mx.get(b).cloned().unwrap_or(f64::NAN) { "prob_below_max" } else { "prob_at_max" }, 1);
    if mx.iter().any(|m| *m != mx[0]) {
        stat("prob_unequal_maxima", 1);
    }
    if removed > 0 {
        stat("prob_n_changed_before_slot", 1);
    }
    let output = format!("{} {} {} {} {}", n_k, approx(p_att), approx(p_pick), approx(p_acc), approx(p_rem));
    emit(true, &input, &output, Some(oracle));
    true
}


/// Metropolis (default update) bisection through the public `diagonal_update` of a FRESH generic sampler (empty string,
/// cutoff chosen so large that every insertion is in the unclipped regime: each empty slot then costs exactly two words —
/// bond draw, acceptance draw — and every removal is certain). Slots 0..k evaluate other bonds first (`pre`: the bond
/// drawn at slot 0), slot k bisects the acceptance of bond `b`; the next sweep must remove the operator.
/// Oracle: (1/Nb)·p_acc / p_rem = β·w_b/(L−n_k) with w_b from the registered matrices; a bond of weight 0 is never inserted.
pub fn mprob_fresh(g: &mut SplitMix64, rng: &SharedRng, mut smp: Smp, kind: &str, b: usize, pre: usize) -> bool {
    enable_heatbath(&mut smp, false);
    if let Err(e) = check_registered(&smp) {
        emit(true, &format!("registered-mismatch {} {}", kind, show_table_ham(&smp.bonds())), "BAD", Some(Err(e)));
        return true;
    }
    let bonds = smp.bonds();
    let nb = bonds.len();
    if nb == 0 || b >= nb || pre >= nb || count_ops(&smp.slots()) != 0 {
        return false;
    }
    let wmax = bonds.iter().map(|tb| { let dim = 1usize << tb.vars.len(); (0..dim).map(|s| tb.mat[s * dim + s]).fold(0.0, f64::max) }).fold(0.0, f64::max);
    let beta = *g.pick(&[0.25, 0.5, 1.0, 2.0]);
    let k = g.range(1, 4) as usize;
    let l = (beta * nb as f64 * wmax).ceil() as usize + k + g.range(2, 8) as usize;
    smp.set_cutoff(l);
    let base = smp.clone();
    let cfg = cfg_of(&base, beta);
    if cfg.cutoff != l {
        return false;
    }
    let anchor = |bb: usize| -> u64 { ((((bb as u128) << 64) + (1u128 << 62)) / nb as u128) as u64 };
    let mut prefix: Vec<u64> = vec![];
    let mut pre_bonds = vec![];
    for p in 0..k {
        let c = if p == 0 { pre } else { g.below(nb as u64) as usize };
        pre_bonds.push(c);
        prefix.push(anchor(c));
        // accept word 2^40 (accepted for every p > 2^-24, and far from the threshold 0 of a weight-0 bond) or MAX (rejected)
        prefix.push(if g.coin() { 1u64 << 40 } else { u64::MAX });
    }
    // all later slots: an accepted bond word and a rejecting acceptance word, so that nothing else is inserted
    let reject_rest: Vec<u64> = (0..l + 2).flat_map(|_| [anchor(0), u64::MAX]).collect();
    let seed = g.next();
    let run = |base: &Smp, script: Vec<u64>, seed: u64| -> Option<Smp> {
        let mut s = base.clone();
        rng.script(script, seed);
        catch(|| s.sweep(beta)).ok().map(|_| s)
    };
    let with = |tail: &[u64]| -> Vec<u64> {
        let mut sc = prefix.clone();
        sc.extend_from_slice(tail);
        sc.extend_from_slice(&reject_rest);
        sc
    };
    let input = format!(
        "mprob {} {} {} {} {} {} {} {}",
        show_table_ham(&cfg.bonds),
        rat(beta),
        l,
        bits(&cfg.state),
        show_cfg_slots(&cfg.slots),
        words(&prefix),
        k,
        b
    );
    let probe = match run(&base, with(&[anchor(b), u64::MAX]), seed) {
        Some(s) => s,
        None => return false,
    };
    let ps = probe.slots();
    let prefix_ok = (0..k).all(|p| ps[p].as_ref().map(|o| o.get_bond() == pre_bonds[p] && o.is_diagonal()).unwrap_or(true)) && ps[k].is_none();
    if !prefix_ok {
        emit(true, &input, "unlocatable", None);
        return true;
    }
    let n_k = count_ops(&ps[..k]);
    let st = state_at(&cfg, k);
    let w = diag_weight(&cfg.bonds[b], &substate(&st, &cfg.bonds[b].vars));
    let holds = |s: Option<Smp>| -> bool { s.map(|s| s.slots()[k].as_ref().map(|o| o.is_diagonal() && o.get_bond() == b).unwrap_or(false)).unwrap_or(false) };
    let p_acc = frac(threshold_down(|x| holds(run(&base, with(&[anchor(b), x]), seed))));
    let mut oracle: Result<(), String> = Ok(());
    let mut p_rem = 1.0;
    if p_acc > 0.0 {
        if let Some(s1) = run(&base, with(&[anchor(b), 0]), seed) {
            for t in 0..3u64 {
                match run(&s1, vec![], seed.wrapping_add(t + 1)) {
                    Some(s2) => {
                        if s2.slots()[k].is_some() {
                            p_rem = f64::NAN;
                            oracle = Err(format!("operator of bond {} at slot {} survived the next sweep although L-n+1 > beta*Nb*w", b, k));
                        }
                    }
                    None => return false,
                }
            }
        }
    }
    let want = beta * w / ((l - n_k) as f64);
    if oracle.is_ok() {
        if w == 0.0 && p_acc > 0.0 {
            oracle = Err(format!("bond {} has weight 0 at slot {} but is inserted with probability {}", b, k, p_acc));
        } else if !close(p_acc / nb as f64 / p_rem, want) {
            oracle = Err(format!(
                "p_insert/p_remove = (1/{})*{}/{} = {} but beta*w/(L-n) = {}*{}/({}-{}) = {}",
                nb, p_acc, p_rem, p_acc / nb as f64 / p_rem, beta, w, l, n_k, want
            ));
        }
    }
    stat(&format!("mprob_fresh_{}", kind), 1);
    stat(if w == 0.0 { "mprob_fresh_zero_weight" } else { "mprob_fresh_positive_weight" }, 1);
    if n_k > 0 {
        stat("mprob_fresh_n_changed_before_slot", 1);
    }
    emit(true, &input, &format!("{} {} {} {}", n_k, approx(1.0 / nb as f64), approx(p_acc), approx(if p_rem.is_nan() { 0.0 } else { p_rem })), Some(oracle));
    true
}
