//! Shared by the C08 and C02 harness bins: random table Hamiltonians and operator strings, an
//! instrumented `Hamiltonian` + RNG pair (records which bond the real code evaluated after how many
//! RNG words), a runner for the real sweep methods on `FastOps`, and word-threshold bisection.
#![allow(dead_code)]

pub mod samplers;

use qmc::sse::fast_ops::{FastOp, FastOps};
use qmc::sse::qmc_traits::*;
use rand::{Error, RngCore};
use std::cell::{Cell, RefCell};
use vh::*;

pub const TWO64: f64 = 18446744073709551616.0;

/// RNG wrapper counting the words handed out (shared counter, read by `LogHam`).
pub struct CountRng<'c> {
    pub inner: RecRng,
    pub count: &'c Cell<usize>,
}
impl<'c> RngCore for CountRng<'c> {
    fn next_u32(&mut self) -> u32 {
        self.count.set(self.count.get() + 1);
        self.inner.next_u32()
    }
    fn next_u64(&mut self) -> u64 {
        self.count.set(self.count.get() + 1);
        self.inner.next_u64()
    }
    fn fill_bytes(&mut self, dest: &mut [u8]) {
        self.inner.fill_bytes(dest)
    }
    fn try_fill_bytes(&mut self, dest: &mut [u8]) -> Result<(), Error> {
        self.inner.try_fill_bytes(dest)
    }
}

/// Table Hamiltonian that logs every `hamiltonian()` evaluation as (bond, words drawn so far).
pub struct LogHam<'a> {
    pub bonds: &'a [TableBond],
    pub count: &'a Cell<usize>,
    pub calls: &'a RefCell<Vec<(usize, usize)>>,
}
impl<'a> Hamiltonian<'a> for LogHam<'a> {
    fn hamiltonian(&self, _vars: &[usize], bond: usize, inputs: &[bool], outputs: &[bool]) -> f64 {
        self.calls.borrow_mut().push((bond, self.count.get()));
        self.bonds[bond].mat[bit_index(outputs.iter().chain(inputs.iter()))]
    }
    fn edge_fn(&self, bond: usize) -> (&'a [usize], bool) {
        (&self.bonds[bond].vars, self.bonds[bond].constant)
    }
    fn num_bonds(&self) -> usize {
        self.bonds.len()
    }
}

/// One generated test configuration.
#[derive(Clone, Debug)]
pub struct Cfg {
    pub bonds: Vec<TableBond>,
    pub nvars: usize,
    pub state: Vec<bool>,
    /// slot contents of the container (length = container length, may be shorter than `cutoff`)
    pub slots: Vec<Option<FastOp>>,
    pub cutoff: usize,
    pub beta: f64,
}

pub fn diag_weight(b: &TableBond, sub: &[bool]) -> f64 {
    b.mat[bit_index(sub.iter().chain(sub.iter()))]
}

pub fn substate(state: &[bool], vars: &[usize]) -> Vec<bool> {
    vars.iter().map(|v| state[*v]).collect()
}

const WEIGHTS: [f64; 12] = [0.0, 0.0, 0.125, 0.25, 0.5, 0.75, 1.0, 1.5, 2.0, 3.0, 4.0, 6.0];
const BETAS: [f64; 7] = [0.125, 0.25, 0.5, 1.0, 1.0, 2.0, 4.0];

/// number of variables of a random bond: 1..=min(nvars, 4), 3- and 4-variable bonds in ~3/8 of the draws
pub fn gen_arity(g: &mut SplitMix64, nvars: usize) -> usize {
    let r = g.below(8);
    if nvars >= 4 && r == 0 {
        4
    } else if nvars >= 3 && r <= 2 {
        3
    } else if nvars >= 2 && r <= 5 {
        2
    } else {
        1
    }
}

/// Diagonal weights (index = sub-state, first variable most significant) of a bond on k >= 3 variables.
/// In 3/4 of the draws the maximum is unique and sits at a uniformly chosen sub-state index (so that every
/// index, in particular the last ones of any enumeration order, carries the maximum regularly).
pub fn gen_multi_diag(g: &mut SplitMix64, k: usize) -> Vec<f64> {
    let dim = 1usize << k;
    if g.chance(1, 4) {
        return (0..dim).map(|_| *g.pick(&WEIGHTS)).collect();
    }
    let top = *g.pick(&[0.75, 1.5, 2.0, 3.0, 4.0, 6.0]);
    let m = g.below(dim as u64) as usize;
    let lower: Vec<f64> = WEIGHTS.iter().cloned().filter(|w| *w < top).collect();
    let d: Vec<f64> = (0..dim).map(|s| if s == m { top } else { *g.pick(&lower) }).collect();
    stat(&format!("multivar_bond_k{}_argmax_{}", k, m), 1);
    d
}

/// index of the unique largest diagonal entry of a bond, if unique
pub fn unique_argmax(tb: &TableBond) -> Option<usize> {
    let dim = 1usize << tb.vars.len();
    let d: Vec<f64> = (0..dim).map(|s| tb.mat[s * dim + s]).collect();
    let mx = d.iter().cloned().fold(f64::MIN, f64::max);
    let idx: Vec<usize> = (0..dim).filter(|s| d[*s] == mx).collect();
    if idx.len() == 1 {
        Some(idx[0])
    } else {
        None
    }
}

pub fn gen_bonds(g: &mut SplitMix64, nvars: usize) -> Vec<TableBond> {
    let nb = g.range(1, 5) as usize;
    (0..nb)
        .map(|_| {
            let k = gen_arity(g, nvars);
            let mut vars: Vec<usize> = vec![];
            while vars.len() < k {
                let v = g.below(nvars as u64) as usize;
                if !vars.contains(&v) {
                    vars.push(v);
                }
            }
            let dim = 1usize << k;
            let zero_bond = g.chance(1, 12);
            let flat = g.chance(1, 6);
            let flat_w = *g.pick(&WEIGHTS[2..]);
            let mut mat = vec![0.0; dim * dim];
            if k >= 3 {
                // diagonal many-body term (the off-diagonal entries play no role in the diagonal update)
                let d = gen_multi_diag(g, k);
                for s in 0..dim {
                    mat[s * dim + s] = d[s];
                }
                return TableBond { vars, constant: false, mat };
            }
            for o in 0..dim {
                for i in 0..dim {
                    mat[o * dim + i] = if o == i {
                        if zero_bond {
                            0.0
                        } else if flat {
                            flat_w
                        } else {
                            *g.pick(&WEIGHTS)
                        }
                    } else {
                        *g.pick(&[0.0, 0.5, 1.0])
                    };
                }
            }
            TableBond { vars, constant: g.chance(1, 4), mat }
        })
        .collect()
}

/// Random Hamiltonian, state and operator string (inputs of every op agree with the propagated state).
pub fn gen_cfg(g: &mut SplitMix64, allow_short: bool) -> Cfg {
    let nvars = g.range(1, 4) as usize;
    let bonds = gen_bonds(g, nvars);
    let state: Vec<bool> = (0..nvars).map(|_| g.coin()).collect();
    let cutoff = g.range(1, 10) as usize;
    let lc = if allow_short && g.chance(1, 8) { g.below(cutoff as u64 + 1) as usize } else { cutoff };
    // fill level; 10 = completely full string (n == L from the first slot on)
    let fill = if g.chance(1, 10) { 10 } else { g.range(0, 9) };
    let mut rolling = state.clone();
    let mut slots: Vec<Option<FastOp>> = vec![];
    for _ in 0..lc {
        let r = g.range(0, 9);
        if r >= fill {
            slots.push(None);
            continue;
        }
        let b = g.below(bonds.len() as u64) as usize;
        let vars = bonds[b].vars.clone();
        let sub = substate(&rolling, &vars);
        if g.chance(2, 3) {
            // diagonal op; zero-weight ones (illegal strings) only rarely
            if diag_weight(&bonds[b], &sub) == 0.0 && g.chance(7, 8) {
                slots.push(None);
            } else {
                slots.push(Some(FastOp::diagonal(vars, b, sub, bonds[b].constant)));
            }
        } else {
            let mut outs = sub.clone();
            let flip = g.below(outs.len() as u64) as usize;
            outs[flip] = !outs[flip];
            if outs.len() == 2 && g.coin() {
                outs[1 - flip] = !outs[1 - flip];
            }
            for (v, o) in vars.iter().zip(outs.iter()) {
                rolling[*v] = *o;
            }
            slots.push(Some(FastOp::offdiagonal(vars, b, sub, outs, bonds[b].constant)));
        }
    }
    // container LONGER than the sweep: pre-grown with empty slots (`set_cutoff(big)` after the install), or recycled
    // from a longer run (operators in the tail; they count in n but are never visited)
    if allow_short && lc == cutoff && g.chance(1, 5) {
        let extra = g.range(1, 24) as usize;
        let with_ops = g.chance(1, 3);
        for _ in 0..extra {
            if with_ops && g.chance(1, 4) {
                let b = g.below(bonds.len() as u64) as usize;
                let vars = bonds[b].vars.clone();
                let sub = substate(&rolling, &vars);
                if diag_weight(&bonds[b], &sub) > 0.0 {
                    slots.push(Some(FastOp::diagonal(vars, b, sub, bonds[b].constant)));
                    continue;
                }
            }
            slots.push(None);
        }
        stat(if with_ops { "cfg_container_longer_with_tail_ops" } else { "cfg_container_pregrown" }, 1);
    }
    Cfg { bonds, nvars, state, slots, cutoff, beta: *g.pick(&BETAS) }
}

/// number of operators in the part of the container beyond the sweep
pub fn tail_ops(cfg: &Cfg) -> usize {
    cfg.slots.iter().skip(cfg.cutoff).filter(|o| o.is_some()).count()
}

pub fn build_manager(cfg: &Cfg) -> FastOps {
    let ops: Vec<(usize, FastOp)> = cfg.slots.iter().enumerate().filter_map(|(p, o)| o.clone().map(|o| (p, o))).collect();
    let mut m = FastOps::new_from_ops(cfg.nvars, ops);
    m.set_cutoff(cfg.slots.len());
    m
}

pub fn show_cfg_slots(slots: &[Option<FastOp>]) -> String {
    let ops: Vec<String> = slots.iter().enumerate().filter_map(|(p, o)| o.as_ref().map(|op| format!("{}@{}", p, show_op(op)))).collect();
    format!("L{}:{}", slots.len(), ops.join("+"))
}

pub fn words(ws: &[u64]) -> String {
    list(ws)
}

/// The real bond-weight table: `FastOps::make_bond_weights` on the table Hamiltonian.
pub fn real_table(bonds: &[TableBond]) -> BondWeights {
    let h = TableHam { bonds };
    FastOps::make_bond_weights(|vars: &[usize], b: usize, i: &[bool], o: &[bool]| h.hamiltonian(vars, b, i, o), bonds.len(), |b| &bonds[b].vars[..])
}

/// (max weights, cumulative) columns read from the serde snapshot of a `BondWeights`.
pub fn table_columns(bw: &BondWeights) -> (Vec<f64>, Vec<f64>) {
    let v = serde_json::to_value(bw).unwrap();
    let rows = v["max_weight_and_cumulative"].as_array().unwrap().clone();
    let mut mx = vec![];
    let mut cum = vec![];
    for (i, r) in rows.iter().enumerate() {
        assert_eq!(r[0].as_u64().unwrap() as usize, i);
        mx.push(r[1].as_f64().unwrap());
        cum.push(r[2].as_f64().unwrap());
    }
    (mx, cum)
}

pub struct RunOut {
    pub slots: Vec<Option<FastOp>>,
    pub state: Vec<bool>,
    pub n: usize,
    pub log: Vec<u64>,
    pub calls: Vec<(usize, usize)>,
}

/// Run the real sweep (`make_diagonal_update_with_rng_and_state_ref` or the heat-bath one) on a fresh
/// `FastOps` built from `cfg`, with the given script (then SplitMix64 words).
pub fn run_sweep(cfg: &Cfg, table: Option<&BondWeights>, script: Vec<u64>, seed: u64) -> Result<RunOut, String> {
    let count = Cell::new(0usize);
    let calls = RefCell::new(vec![]);
    let r = catch(|| {
        let mut m = build_manager(cfg);
        let mut state = cfg.state.clone();
        let ham = LogHam { bonds: &cfg.bonds, count: &count, calls: &calls };
        let mut rng = CountRng { inner: RecRng::scripted(script, seed), count: &count };
        match table {
            None => m.make_diagonal_update_with_rng_and_state_ref(cfg.cutoff, cfg.beta, &mut state, &ham, &mut rng),
            Some(bw) => m.make_heatbath_diagonal_update_with_rng_and_state_ref(cfg.cutoff, cfg.beta, &mut state, &ham, bw, &mut rng),
        }
        let slots: Vec<Option<FastOp>> = (0..m.get_cutoff()).map(|p| m.get_pth(p).cloned()).collect();
        (slots, state, m.get_n(), rng.inner.log.clone())
    });
    let calls = calls.into_inner();
    r.map(|(slots, state, n, log)| RunOut { slots, state, n, log, calls })
}

pub fn is_offdiag(o: &Option<FastOp>) -> bool {
    o.as_ref().map(|op| !op.is_diagonal()).unwrap_or(false)
}

pub fn count_ops(s: &[Option<FastOp>]) -> usize {
    s.iter().filter(|o| o.is_some()).count()
}

/// before-string padded with empty slots to the cutoff (what the sweep visits)
pub fn padded(cfg: &Cfg) -> Vec<Option<FastOp>> {
    let mut s = cfg.slots.clone();
    while s.len() < cfg.cutoff {
        s.push(None);
    }
    s
}

/// rolling state in front of slot k of the before-string (only off-diagonal ops change it)
pub fn state_at(cfg: &Cfg, k: usize) -> Vec<bool> {
    let mut s = cfg.state.clone();
    for o in cfg.slots.iter().take(k).flatten() {
        for (v, b) in o.get_vars().iter().zip(o.get_outputs().iter()) {
            s[*v] = *b;
        }
    }
    s
}

/// Number of words `x` in `0..2^64` for which `yes(x)` holds, for a predicate that is true on an
/// initial segment `[0, T)`. Returns T (0..=2^64).
pub fn threshold_down(mut yes: impl FnMut(u64) -> bool) -> u128 {
    if yes(u64::MAX) {
        return 1u128 << 64;
    }
    if !yes(0) {
        return 0;
    }
    let (mut lo, mut hi) = (0u64, u64::MAX); // yes(lo), !yes(hi)
    while hi - lo > 1 {
        let mid = lo + (hi - lo) / 2;
        if yes(mid) {
            lo = mid
        } else {
            hi = mid
        }
    }
    hi as u128
}

/// Smallest word in `[lo, hi]` for which the monotone (false… true…) predicate holds, given `!yes(lo)`
/// and `yes(hi)`.
pub fn first_true(mut lo: u64, mut hi: u64, mut yes: impl FnMut(u64) -> bool) -> u64 {
    while hi - lo > 1 {
        let mid = lo + (hi - lo) / 2;
        if yes(mid) {
            hi = mid
        } else {
            lo = mid
        }
    }
    hi
}

pub fn frac(t: u128) -> f64 {
    (t as f64) / TWO64
}

pub fn approx(x: f64) -> String {
    format!("~{:e}", x)
}

pub fn close(a: f64, b: f64) -> bool {
    (a - b).abs() <= 1e-9 * 1f64.max(a.abs()).max(b.abs())
}

/// Oracle for one sweep, evaluated on the real before/after data only.
pub fn sweep_oracle(cfg: &Cfg, out: &RunOut) -> Result<(), String> {
    let before = padded(cfg);
    if out.slots.len() != before.len().max(cfg.slots.len()) {
        return Err(format!("container length {} after the sweep, expected {}", out.slots.len(), before.len()));
    }
    if out.n != count_ops(&out.slots) {
        return Err(format!("get_n() = {} but the container holds {} ops", out.n, count_ops(&out.slots)));
    }
    let mut rolling = cfg.state.clone();
    for p in 0..before.len() {
        let b = &before[p];
        let a = &out.slots[p];
        if p >= cfg.cutoff {
            // beyond the sweep: untouched, and the state is not propagated through
            if a != b {
                return Err(format!("slot p={} beyond the sweep cutoff {} was changed", p, cfg.cutoff));
            }
            continue;
        }
        if is_offdiag(b) {
            if a != b {
                return Err(format!("off-diagonal operator at p={} was altered", p));
            }
            let op = b.as_ref().unwrap();
            for (v, o) in op.get_vars().iter().zip(op.get_outputs().iter()) {
                rolling[*v] = *o;
            }
            continue;
        }
        match (b, a) {
            (_, None) => {}
            (Some(x), Some(y)) if x == y => {}
            (Some(_), Some(_)) => return Err(format!("diagonal operator at p={} was replaced", p)),
            (None, Some(y)) => {
                if !y.is_diagonal() {
                    return Err(format!("off-diagonal operator created at p={}", p));
                }
                let bond = y.get_bond();
                if bond >= cfg.bonds.len() {
                    return Err(format!("inserted bond {} does not exist", bond));
                }
                let tb = &cfg.bonds[bond];
                let sub = substate(&rolling, &tb.vars);
                if y.get_vars() != &tb.vars[..] || y.get_inputs() != &sub[..] || y.get_outputs() != &sub[..] || y.is_constant() != tb.constant {
                    return Err(format!("inserted op at p={} does not match bond {} on the propagated state", p, bond));
                }
                if !(diag_weight(tb, &sub) > 0.0) {
                    return Err(format!("zero-weight operator (bond {}) inserted at p={}", bond, p));
                }
            }
        }
    }
    if out.state != rolling {
        return Err("state after the sweep is not the propagated state".into());
    }
    Ok(())
}

