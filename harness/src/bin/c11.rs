//! C11 — the `FastOps` operator container's bookkeeping always agrees with its contents.
//!
//! One PRNG generates HISTORIES of mutations which are applied to a real `FastOps`.  After every
//! mutation the harness prints (one CASE line per mutation, consecutively per history):
//!   * the private pointers (serde snapshot), every public getter, and cursors at query positions;
//!   * an oracle verdict: every getter / pointer compared with a direct scan of
//!     `get_pth(0..get_cutoff())` written here, and the slots compared with a naive slot array the
//!     harness maintains itself.  No model is involved in the oracle.
//! On an oracle failure the history is shrunk (delta debugging on the mutation list) and the
//! minimal sequence is appended to the FAIL message.
//! Probes (documented excluded points) are run once per run and reported as STAT lines only.

use qmc::sse::fast_ops::{FastOp, FastOps};
use qmc::sse::*;
use serde_json::Value;
use std::collections::BTreeMap;
use vh::*;

type PR = (usize, usize);

// -------------------------------------------------------------------------------------------
// op / act / mutation descriptions (harness side, independent of the container)
// -------------------------------------------------------------------------------------------

#[derive(Clone, Debug, PartialEq, Eq)]
struct OpS {
    bond: usize,
    vars: Vec<usize>,
    ins: Vec<bool>,
    outs: Vec<bool>,
    diag: bool,
    constant: bool,
}

impl OpS {
    fn to_op(&self) -> FastOp {
        if self.diag {
            FastOp::diagonal(self.vars.clone(), self.bond, self.ins.clone(), self.constant)
        } else {
            FastOp::offdiagonal(self.vars.clone(), self.bond, self.ins.clone(), self.outs.clone(), self.constant)
        }
    }
    fn show(&self) -> String {
        format!(
            "{};{};{};{};{};{}",
            self.bond,
            list(&self.vars),
            bits(&self.ins),
            bits(&self.outs),
            if self.diag { "D" } else { "O" },
            self.constant as u8
        )
    }
}

#[derive(Clone, Debug, PartialEq, Eq)]
enum Act {
    K,
    R,
    S(OpS),
}

impl Act {
    fn ret(&self) -> Option<Option<FastOp>> {
        match self {
            Act::K => None,
            Act::R => Some(None),
            Act::S(o) => Some(Some(o.to_op())),
        }
    }
    fn show(&self) -> String {
        match self {
            Act::K => "k".into(),
            Act::R => "r".into(),
            Act::S(o) => o.show(),
        }
    }
}

fn show_acts(acts: &[Act]) -> String {
    if acts.is_empty() {
        "-".into()
    } else {
        acts.iter().map(|a| a.show()).collect::<Vec<_>>().join("+")
    }
}

fn show_hints(h: &[Option<usize>]) -> String {
    h.iter()
        .map(|x| x.map(|p| p.to_string()).unwrap_or_else(|| "_".into()))
        .collect::<Vec<_>>()
        .join(",")
}

#[derive(Clone, Debug, PartialEq, Eq)]
enum Mut {
    New { nvars: usize, nb: Option<usize> },
    Install { nvars: usize, ops: Vec<(usize, OpS)> },
    Cutoff(usize),
    Set { p: usize, act: Act },
    Ps { ps: usize, pe: usize, acts: Vec<Act> },
    Ops { ps: usize, pe: usize, acts: Vec<Act> },
    /// subps / subops: `vars` None = `*` (SubvarAccess::All); `fill` = how the cursor is prepared
    Sub { is_ops: bool, vars: Option<Vec<usize>>, fill: Fill, ps: usize, pe: usize, acts: Vec<Act> },
}

/// How the args of a sub-variable sweep are filled.
#[derive(Clone, Debug, PartialEq, Eq)]
enum Fill {
    /// get_empty_args(Varlist) + fill_args_at_p_with_hint
    Hint(Vec<Option<usize>>),
    /// get_empty_args(..) + fill_args_at_p
    N,
    /// get_empty_args(..) + get_empty_args(Args(..)) + fill_args_at_p
    A,
}
impl Fill {
    fn show(&self) -> String {
        match self {
            Fill::Hint(h) => show_hints(h),
            Fill::N => "N".into(),
            Fill::A => "A".into(),
        }
    }
}

impl Mut {
    fn kind(&self) -> &'static str {
        match self {
            Mut::New { .. } => "new",
            Mut::Install { .. } => "install",
            Mut::Cutoff(_) => "cutoff",
            Mut::Set { .. } => "set",
            Mut::Ps { .. } => "ps",
            Mut::Ops { .. } => "ops",
            Mut::Sub { is_ops: false, .. } => "subps",
            Mut::Sub { is_ops: true, .. } => "subops",
        }
    }
    fn body(&self) -> String {
        match self {
            Mut::New { nvars, nb } => format!("{} {}", nvars, nb.map(|b| b.to_string()).unwrap_or_else(|| "-".into())),
            Mut::Install { nvars, ops } => {
                let l = ops.iter().map(|(p, _)| p + 1).max().unwrap_or(0);
                let s: Vec<String> = ops.iter().map(|(p, o)| format!("{}@{}", p, o.show())).collect();
                format!("{} L{}:{}", nvars, l, s.join("+"))
            }
            Mut::Cutoff(k) => format!("{}", k),
            Mut::Set { p, act } => format!("{} {}", p, act.show()),
            Mut::Ps { ps, pe, acts } | Mut::Ops { ps, pe, acts } => format!("{} {} {}", ps, pe, show_acts(acts)),
            Mut::Sub { vars, fill, ps, pe, acts, .. } => {
                let vs = vars.as_ref().map(|v| list(v)).unwrap_or_else(|| "*".into());
                format!("{} {} {} {} {}", vs, fill.show(), ps, pe, show_acts(acts))
            }
        }
    }
    fn line(&self, tag: &str, q: &[usize]) -> String {
        format!("{} {} {} q={}", self.kind(), tag, self.body(), list(q))
    }
    fn line_notag(&self) -> String {
        format!("{} {} q=-", self.kind(), self.body())
    }
}

// -------------------------------------------------------------------------------------------
// naive slot array (the harness's own expectation of the contents)
// -------------------------------------------------------------------------------------------

#[derive(Clone, Debug)]
struct Naive {
    nvars: usize,
    nb: Option<usize>,
    slots: Vec<Option<OpS>>,
}

type Stats = BTreeMap<String, u64>;
fn bump(st: &mut Option<&mut Stats>, key: &str) {
    if let Some(s) = st.as_mut() {
        *s.entry(key.to_string()).or_insert(0) += 1;
    }
}

impl Naive {
    fn empty() -> Self {
        Naive { nvars: 0, nb: None, slots: vec![] }
    }
    fn len(&self) -> usize {
        self.slots.len()
    }
    fn n_occ(&self) -> usize {
        self.slots.iter().filter(|s| s.is_some()).count()
    }
    fn slot_strings(&self) -> Vec<Option<String>> {
        self.slots.iter().map(|s| s.as_ref().map(|o| o.show())).collect()
    }
    fn write(&mut self, p: usize, act: &Act, st: &mut Option<&mut Stats>) {
        let old = self.slots[p].clone();
        match (old, act) {
            (_, Act::K) => bump(st, "path_noop"),
            (None, Act::R) => bump(st, "path_noop"),
            (Some(_), Act::R) => {
                bump(st, "path_remove");
                self.slots[p] = None;
            }
            (None, Act::S(o)) => {
                bump(st, "path_insert");
                bump(st, &format!("opvars_{}", o.vars.len()));
                self.slots[p] = Some(o.clone());
            }
            (Some(old), Act::S(o)) => {
                if old.vars == o.vars {
                    bump(st, "path_same_vars_fast");
                    if old.bond != o.bond {
                        bump(st, "path_same_vars_diff_bond");
                    }
                } else {
                    bump(st, "path_diff_vars_replace");
                }
                bump(st, &format!("opvars_{}", o.vars.len()));
                self.slots[p] = Some(o.clone());
            }
        }
    }
    fn grow(&mut self, l: usize) -> bool {
        if l > self.slots.len() {
            self.slots.resize(l, None);
            true
        } else {
            false
        }
    }
    fn apply(&mut self, m: &Mut, mut st: Option<&mut Stats>) {
        let st = &mut st;
        match m {
            Mut::New { nvars, nb } => {
                *self = Naive { nvars: *nvars, nb: *nb, slots: vec![] };
            }
            Mut::Install { nvars, ops } => {
                let l = ops.iter().map(|(p, _)| p + 1).max().unwrap_or(0);
                let mut slots = vec![None; l];
                for (p, o) in ops {
                    slots[*p] = Some(o.clone());
                    bump(st, &format!("opvars_{}", o.vars.len()));
                }
                *self = Naive { nvars: *nvars, nb: None, slots };
            }
            Mut::Cutoff(k) => {
                if self.grow(*k) {
                    bump(st, "cutoff_grew");
                } else {
                    bump(st, "cutoff_noop");
                }
            }
            Mut::Set { p, act } => self.write(*p, act, st),
            Mut::Ps { ps, pe, acts } | Mut::Sub { is_ops: false, ps, pe, acts, .. } => {
                if self.grow(*pe) {
                    bump(st, "growth_in_sweep");
                }
                for (i, a) in acts.iter().enumerate() {
                    self.write(ps + i, a, st);
                }
            }
            Mut::Ops { ps, pe, acts } | Mut::Sub { is_ops: true, vars: None, ps, pe, acts, .. } => {
                if self.grow(*pe) {
                    bump(st, "growth_in_sweep");
                }
                for p in *ps..=*pe {
                    if p < self.len() && self.slots[p].is_some() {
                        self.write(p, &acts[p - ps], st);
                    }
                }
            }
            Mut::Sub { is_ops: true, vars: Some(vars), ps, pe, acts, .. } => {
                if self.grow(*pe) {
                    bump(st, "growth_in_sweep");
                }
                for p in *ps..=*pe {
                    if p < self.len() {
                        let shares = self.slots[p].as_ref().map(|o| o.vars.iter().any(|v| vars.contains(v))).unwrap_or(false);
                        if shares {
                            self.write(p, &acts[p - ps], st);
                        }
                    }
                }
            }
        }
    }

    /// Is the op inside the valid domain of this container?
    fn op_ok(&self, o: &OpS) -> bool {
        let bl = self.nb.unwrap_or(6);
        !o.vars.is_empty()
            && o.vars.len() <= 3
            && o.vars.iter().all(|v| *v < self.nvars)
            && (0..o.vars.len()).all(|i| (0..i).all(|j| o.vars[i] != o.vars[j]))
            && o.ins.len() == o.vars.len()
            && o.outs.len() == o.vars.len()
            && o.bond < bl
            && (!o.diag || o.ins == o.outs)
    }
    fn act_ok(&self, a: &Act) -> bool {
        match a {
            Act::S(o) => self.op_ok(o),
            _ => true,
        }
    }

    /// Bring a mutation back into the valid domain with respect to the current slots (used when
    /// shrinking: removing earlier mutations may invalidate later ones). None = drop it.
    fn sanitize(&self, m: &Mut) -> Option<Mut> {
        let len = self.len();
        let subset = |o: &OpS, vars: &[usize]| o.vars.iter().all(|v| vars.contains(v));
        match m {
            Mut::New { .. } | Mut::Install { .. } => None, // only as the first line (handled by caller)
            Mut::Cutoff(_) => Some(m.clone()),
            Mut::Set { p, act } => {
                if *p < len && self.act_ok(act) {
                    Some(m.clone())
                } else {
                    None
                }
            }
            Mut::Ps { ps, pe, acts } => {
                if ps <= pe && *ps < len.max(*pe) && acts.len() == pe - ps && acts.iter().all(|a| self.act_ok(a)) {
                    Some(m.clone())
                } else {
                    None
                }
            }
            Mut::Ops { ps, pe, acts } => {
                if !(ps <= pe && *ps < len.max(*pe) && acts.len() == pe - ps + 1 && acts.iter().all(|a| self.act_ok(a))) {
                    return None;
                }
                let mut acts = acts.clone();
                for p in *ps..=*pe {
                    let occ = p < len && self.slots[p].is_some();
                    if !occ || acts[p - ps] == Act::R {
                        // entries at empty slots are never used; `r` on an occupied slot is outside the domain
                        acts[p - ps] = Act::K;
                    }
                }
                Some(Mut::Ops { ps: *ps, pe: *pe, acts })
            }
            Mut::Sub { is_ops, vars, fill, ps, pe, acts } => {
                let is_ops = *is_ops;
                if ps > pe {
                    return None;
                }
                let want = if is_ops { pe - ps + 1 } else { pe - ps };
                if acts.len() != want || !acts.iter().all(|a| self.act_ok(a)) {
                    return None;
                }
                if let Some(vs) = vars {
                    let distinct = (0..vs.len()).all(|i| (0..i).all(|j| vs[i] != vs[j]));
                    if vs.is_empty() || !distinct || vs.iter().any(|v| *v >= self.nvars) {
                        return None;
                    }
                }
                let fill = match fill {
                    Fill::Hint(hints) => {
                        let vs = vars.as_ref()?; // `*` needs N or A
                        // ps <= len: fill_args_at_p_with_hint scans get_node_ref(0..ps) before the array is grown
                        if hints.len() != vs.len() || !(*ps < len.max(*pe) && *ps <= len) {
                            return None;
                        }
                        Fill::Hint(
                            hints
                                .iter()
                                .zip(vs.iter())
                                .map(|(h, v)| h.filter(|h| *h < len && self.slots[*h].as_ref().map(|o| o.vars.contains(v)).unwrap_or(false)))
                                .collect(),
                        )
                    }
                    Fill::N | Fill::A => {
                        // fill_args_at_p indexes ops[ps] before the array is grown
                        if *ps >= len {
                            return None;
                        }
                        if let Some(vs) = vars {
                            // documented boundary (probe varlist_nohint): no listed variable has an op
                            // although a slot below ps is occupied => last_p stays None
                            let listed_has_op = self.slots.iter().flatten().any(|o| o.vars.iter().any(|v| vs.contains(v)));
                            let below_occ = self.slots[..*ps].iter().any(|x| x.is_some());
                            if !listed_has_op && below_occ {
                                return None;
                            }
                        }
                        fill.clone()
                    }
                };
                let mut acts = acts.clone();
                for (i, a) in acts.iter_mut().enumerate() {
                    let p = ps + i;
                    let old = if p < len { self.slots[p].as_ref() } else { None };
                    match vars {
                        Some(vs) => {
                            let old_ok = old.map(|o| subset(o, vs)).unwrap_or(true);
                            let new_ok = match a {
                                Act::S(o) => subset(o, vs),
                                _ => true,
                            };
                            if !(old_ok && new_ok) || (is_ops && old.is_none()) {
                                *a = Act::K;
                            }
                        }
                        None => {
                            // `*`: subps behaves like ps, subops like ops
                            if is_ops && (old.is_none() || *a == Act::R) {
                                *a = Act::K;
                            }
                        }
                    }
                }
                Some(Mut::Sub { is_ops, vars: vars.clone(), fill, ps: *ps, pe: *pe, acts })
            }
        }
    }
}

// -------------------------------------------------------------------------------------------
// applying a mutation to the real container
// -------------------------------------------------------------------------------------------

/// `pre` receives the verdict on the cursor built by an N/A fill (checked before the mutation runs).
fn apply_real(c: &mut Option<FastOps>, m: &Mut, pre: &mut Option<String>) {
    match m {
        Mut::New { nvars, nb } => {
            *c = Some(match nb {
                None => FastOps::new_from_nvars(*nvars),
                Some(nb) => FastOps::new_from_nvars_and_nbonds(*nvars, Some(*nb)),
            });
        }
        Mut::Install { nvars, ops } => {
            *c = Some(FastOps::new_from_ops(*nvars, ops.iter().map(|(p, o)| (*p, o.to_op()))));
        }
        _ => {
            let c = c.as_mut().expect("history must start with new/install");
            match m {
                Mut::Cutoff(k) => c.set_cutoff(*k),
                Mut::Set { p, act } => {
                    let a = c.get_empty_args(SubvarAccess::All);
                    let a = c.fill_args_at_p(*p, a);
                    let (_, a) = c.mutate_p(|_, _, t| (act.ret(), t), *p, (), a);
                    c.return_args(a);
                }
                Mut::Ps { ps, pe, acts } => {
                    c.mutate_ps(*ps, *pe, 0usize, |_, _op, i| (acts[i].ret(), i + 1));
                }
                Mut::Ops { ps, pe, acts } => {
                    c.mutate_ops(*ps, *pe, (), |_, _op, p, t| (acts[p - ps].ret(), t));
                }
                Mut::Sub { is_ops, vars, fill, ps, pe, acts } => {
                    let a = match fill {
                        Fill::Hint(hints) => {
                            let vs = vars.as_ref().expect("hint fill needs a variable list");
                            let mut a = c.get_empty_args(SubvarAccess::Varlist(vs));
                            c.fill_args_at_p_with_hint(*ps, &mut a, vs, hints.iter().cloned());
                            a
                        }
                        Fill::N | Fill::A => {
                            let before = scan(c);
                            let a = match vars {
                                Some(vs) => c.get_empty_args(SubvarAccess::Varlist(vs)),
                                None => c.get_empty_args(SubvarAccess::All),
                            };
                            let a = if *fill == Fill::A { c.get_empty_args(SubvarAccess::Args(a)) } else { a };
                            let a = c.fill_args_at_p(*ps, a);
                            let cur = parse_args_debug(*ps, &format!("{:?}", a));
                            let listed: Vec<usize> = vars.clone().unwrap_or_else(|| (0..c.get_nvars()).collect());
                            *pre = check_prefill(&cur, &before, &listed, &fill.show()).err();
                            a
                        }
                    };
                    if *is_ops {
                        c.mutate_subsection_ops(*ps, *pe, (), |_, _op, p, t| (acts[p - ps].ret(), t), Some(a));
                    } else {
                        c.mutate_subsection(*ps, *pe, 0usize, |_, _op, i| (acts[i].ret(), i + 1), Some(a));
                    }
                }
                _ => unreachable!(),
            }
        }
    }
}

#[allow(unexpected_cfgs)]
fn drain_pool_log() {
    #[cfg(qmc_verif)]
    {
        let _ = qmc::util::allocator::verif_log::take();
    }
}

// -------------------------------------------------------------------------------------------
// observation of the real container: serde snapshot (private pointers) + public getters
// -------------------------------------------------------------------------------------------

#[derive(Clone, Debug, Default, PartialEq, Eq)]
struct NodeObs {
    p: usize,
    prev: Option<usize>,
    next: Option<usize>,
    prevs: Vec<Option<PR>>,
    nexts: Vec<Option<PR>>,
}

#[derive(Clone, Debug, Default)]
struct CurObs {
    p: usize,
    last_p: Option<usize>,
    lv: Vec<Option<usize>>,
    lr: Vec<Option<usize>>,
    unfilled: usize,
}

/// Result of a by-variable accessor: Err(_), Ok(x), or the call panicked.
#[derive(Clone, Debug, PartialEq, Eq)]
enum BV {
    E,
    O(Option<PR>),
    P,
}
impl BV {
    fn show(&self) -> String {
        match self {
            BV::E => "E".into(),
            BV::O(x) => f_pr(*x),
            BV::P => "P".into(),
        }
    }
}

#[derive(Clone, Debug, Default)]
struct Obs {
    // contents (public get_pth / get_cutoff)
    cutoff: usize,
    slots: Vec<Option<String>>,
    slots_str: String,
    // serde snapshot
    s_len: usize,
    s_n: usize,
    s_pe: Option<PR>,
    s_ve: Vec<Option<(PR, PR)>>,
    s_bc: Option<Vec<usize>>,
    s_nodes: Vec<NodeObs>,
    // getters
    g_done: bool,
    g_n: usize,
    g_first: Option<usize>,
    g_last: Option<usize>,
    g_counts: Vec<usize>,
    gv: Vec<(Option<PR>, Option<PR>, bool)>,
    g_nodes: Vec<NodeObs>,
    /// per occupied p, per variable: (get_previous_p_for_var, get_next_p_for_var)
    bv: Vec<(usize, Vec<(BV, BV)>)>,
    nth_done: bool,
    nth: Vec<usize>,
    it_a: usize,
    it_b: usize,
    it_done: bool,
    it_ops: Vec<(usize, String)>,
    it_try_ops: Vec<(usize, String)>,
    it_ps: Vec<Option<String>>,
    it_try_ps: Vec<Option<String>>,
    cu_done: bool,
    cu: Vec<CurObs>,
    panic: Option<String>,
}

fn j_ou(v: &Value) -> Option<usize> {
    if v.is_null() {
        None
    } else {
        Some(v.as_u64().expect("snapshot: number expected") as usize)
    }
}
fn j_prel(v: &Value) -> Option<PR> {
    if v.is_null() {
        None
    } else {
        Some((v["p"].as_u64().expect("snapshot: p") as usize, v["relv"].as_u64().expect("snapshot: relv") as usize))
    }
}
fn j_prels(v: &Value) -> Vec<Option<PR>> {
    v.as_array().expect("snapshot: array expected").iter().map(j_prel).collect()
}

/// Parse one `Option<usize>` / list of them out of the derived Debug text of `FastOpMutateArgs`.
fn dbg_opt(s: &str) -> Option<usize> {
    let s = s.trim();
    if s == "None" {
        None
    } else {
        let inner = s.strip_prefix("Some(").and_then(|x| x.strip_suffix(')')).unwrap_or_else(|| panic!("cannot parse Debug option {:?}", s));
        Some(inner.trim().parse().unwrap_or_else(|_| panic!("cannot parse Debug option {:?}", s)))
    }
}
fn dbg_field<'a>(s: &'a str, start: &str, end: &str) -> &'a str {
    let i = s.find(start).unwrap_or_else(|| panic!("Debug text lacks {:?}: {}", start, s)) + start.len();
    let j = s[i..].find(end).unwrap_or_else(|| panic!("Debug text lacks {:?}: {}", end, s)) + i;
    &s[i..j]
}
fn dbg_list(s: &str) -> Vec<Option<usize>> {
    let inner = s.trim().strip_prefix('[').and_then(|x| x.strip_suffix(']')).unwrap_or_else(|| panic!("cannot parse Debug list {:?}", s));
    if inner.trim().is_empty() {
        vec![]
    } else {
        inner.split(',').map(dbg_opt).collect()
    }
}
fn parse_args_debug(p: usize, s: &str) -> CurObs {
    // the pretty / compact Debug forms differ only in whitespace; normalise it
    let flat: String = s.split_whitespace().collect::<Vec<_>>().join(" ");
    let last_p = dbg_opt(dbg_field(&flat, "last_p: ", ", last_vars: "));
    let lv = dbg_list(dbg_field(&flat, "last_vars: ", ", last_rels: "));
    let lr = dbg_list(dbg_field(&flat, "last_rels: ", ", subvar_mapping: "));
    let unf = dbg_field(&flat, "unfilled: ", " }").trim().trim_end_matches(',').trim();
    CurObs { p, last_p, lv, lr, unfilled: unf.parse().unwrap_or_else(|_| panic!("cannot parse unfilled in {}", flat)) }
}

fn observe(c: &mut FastOps, qs: &[usize]) -> Obs {
    let mut o = Obs::default();
    // contents
    o.cutoff = c.get_cutoff();
    o.slots = (0..o.cutoff).map(|p| c.get_pth(p).map(|op| show_op(op))).collect();
    o.slots_str = show_slots(&*c);
    // snapshot
    let snap = serde_json::to_value(&*c).expect("serde snapshot");
    let ops = snap["ops"].as_array().expect("snapshot: ops");
    o.s_len = ops.len();
    for (p, nd) in ops.iter().enumerate() {
        if !nd.is_null() {
            o.s_nodes.push(NodeObs {
                p,
                prev: j_ou(&nd["previous_p"]),
                next: j_ou(&nd["next_p"]),
                prevs: j_prels(&nd["previous_for_vars"]),
                nexts: j_prels(&nd["next_for_vars"]),
            });
        }
    }
    o.s_n = snap["n"].as_u64().expect("snapshot: n") as usize;
    o.s_pe = if snap["p_ends"].is_null() {
        None
    } else {
        Some((j_ou(&snap["p_ends"][0]).expect("p_ends.0"), j_ou(&snap["p_ends"][1]).expect("p_ends.1")))
    };
    o.s_ve = snap["var_ends"]
        .as_array()
        .expect("snapshot: var_ends")
        .iter()
        .map(|e| if e.is_null() { None } else { Some((j_prel(&e[0]).expect("var_ends.0"), j_prel(&e[1]).expect("var_ends.1"))) })
        .collect();
    o.s_bc = if snap["bond_counters"].is_null() {
        None
    } else {
        Some(snap["bond_counters"].as_array().expect("bond_counters").iter().map(|x| x.as_u64().expect("counter") as usize).collect())
    };
    drop(snap);
    let (ia, ib) = if qs.is_empty() { (0, o.cutoff) } else { (*qs.iter().min().unwrap(), *qs.iter().max().unwrap()) };
    o.it_a = ia;
    o.it_b = ib;
    // getters (may panic on a corrupt container: keep what was read so far)
    let r = catch(|| {
        o.g_n = c.get_n();
        o.g_first = c.get_first_p();
        o.g_last = c.get_last_p();
        o.g_counts = (0..8).map(|b| c.get_count(b)).collect();
        let nvars = c.get_nvars();
        o.gv = (0..nvars)
            .map(|v| {
                (
                    c.get_first_p_for_var(v).map(|r| (r.p, r.relv)),
                    c.get_last_p_for_var(v).map(|r| (r.p, r.relv)),
                    c.does_var_have_ops(v),
                )
            })
            .collect();
        for p in 0..c.get_cutoff() {
            if let Some(node) = c.get_node_ref(p) {
                let k = node.get_op_ref().get_vars().len();
                o.g_nodes.push(NodeObs {
                    p,
                    prev: c.get_previous_p(node),
                    next: c.get_next_p(node),
                    prevs: (0..k).map(|i| c.get_previous_p_for_rel_var(i, node).map(|r| (r.p, r.relv))).collect(),
                    nexts: (0..k).map(|i| c.get_next_p_for_rel_var(i, node).map(|r| (r.p, r.relv))).collect(),
                });
            }
        }
        // by-variable accessors, every (occupied p, variable); each call caught on its own
        for p in 0..c.get_cutoff() {
            if let Some(node) = c.get_node_ref(p) {
                let row: Vec<(BV, BV)> = (0..nvars)
                    .map(|v| {
                        let pr = catch(|| match c.get_previous_p_for_var(v, node) {
                            Ok(x) => BV::O(x.map(|r| (r.p, r.relv))),
                            Err(_) => BV::E,
                        })
                        .unwrap_or(BV::P);
                        let nx = catch(|| match c.get_next_p_for_var(v, node) {
                            Ok(x) => BV::O(x.map(|r| (r.p, r.relv))),
                            Err(_) => BV::E,
                        })
                        .unwrap_or(BV::P);
                        (pr, nx)
                    })
                    .collect();
                o.bv.push((p, row));
            }
        }
        o.g_done = true;
        let n = o.g_n;
        if n > 0 {
            for k in 0..n {
                let x = c.get_nth_p(k);
                o.nth.push(x);
            }
        }
        o.nth_done = true;
        o.it_ops = c.iterate_ops(ia, ib, Vec::new(), |_, op, p, mut acc: Vec<(usize, String)>| {
            acc.push((p, show_op(op)));
            acc
        });
        o.it_try_ops = c
            .try_iterate_ops(ia, ib, Vec::new(), |_, op, p, mut acc: Vec<(usize, String)>| -> Result<Vec<(usize, String)>, ()> {
                acc.push((p, show_op(op)));
                Ok(acc)
            })
            .unwrap();
        o.it_ps = c.iterate_ps(ia, ib, Vec::new(), |_, op, mut acc: Vec<Option<String>>| {
            acc.push(op.map(|x| show_op(x)));
            acc
        });
        o.it_try_ps = c
            .try_iterate_ps(ia, ib, Vec::new(), |_, op, mut acc: Vec<Option<String>>| -> Result<Vec<Option<String>>, ()> {
                acc.push(op.map(|x| show_op(x)));
                Ok(acc)
            })
            .unwrap();
        o.it_done = true;
        for &p in qs {
            let a = c.get_empty_args(SubvarAccess::All);
            let a = c.fill_args_at_p(p, a);
            let txt = format!("{:?}", a);
            c.return_args(a);
            o.cu.push(parse_args_debug(p, &txt));
        }
        o.cu_done = true;
    });
    o.panic = r.err();
    o
}

fn f_ou(x: Option<usize>) -> String {
    x.map(|p| p.to_string()).unwrap_or_else(|| "_".into())
}
fn f_pr(x: Option<PR>) -> String {
    x.map(|(p, r)| format!("{}.{}", p, r)).unwrap_or_else(|| "_".into())
}
fn f_prs(xs: &[Option<PR>]) -> String {
    if xs.is_empty() {
        "-".into()
    } else {
        xs.iter().map(|x| f_pr(*x)).collect::<Vec<_>>().join(";")
    }
}
fn f_nodes(ns: &[NodeObs]) -> String {
    if ns.is_empty() {
        "-".into()
    } else {
        ns.iter()
            .map(|n| format!("{}/{}/{}/{}/{}", n.p, f_ou(n.prev), f_ou(n.next), f_prs(&n.prevs), f_prs(&n.nexts)))
            .collect::<Vec<_>>()
            .join("+")
    }
}
fn f_cur(c: &CurObs) -> String {
    let n = c.lv.len().max(c.lr.len());
    let items: Vec<String> = (0..n)
        .map(|i| {
            let a = c.lv.get(i).cloned().flatten();
            let b = c.lr.get(i).cloned().flatten();
            if a.is_none() && b.is_none() {
                "_".to_string()
            } else {
                format!("{}.{}", f_ou(a), f_ou(b))
            }
        })
        .collect();
    format!("{}/{}/{}/{}", c.p, f_ou(c.last_p), if items.is_empty() { "-".to_string() } else { items.join(",") }, c.unfilled)
}

fn format_obs(o: &Obs) -> String {
    let t1 = o.slots_str.clone();
    let t2 = format!("n{}", o.s_n);
    let t3 = format!("pe:{}", f_pr(o.s_pe));
    let t4 = format!(
        "ve:{}",
        if o.s_ve.is_empty() {
            "-".to_string()
        } else {
            o.s_ve
                .iter()
                .map(|e| match e {
                    None => "_".to_string(),
                    Some((h, t)) => format!("{}.{}.{}.{}", h.0, h.1, t.0, t.1),
                })
                .collect::<Vec<_>>()
                .join(",")
        }
    );
    let t5 = format!(
        "bc:{}",
        match &o.s_bc {
            None => "N".to_string(),
            Some(v) => list(v),
        }
    );
    let t6 = format!("nd:{}", f_nodes(&o.s_nodes));
    let (t7, t8, t9) = if o.g_done {
        (
            format!("g:{}/{}/{}/{}", o.g_n, f_ou(o.g_first), f_ou(o.g_last), list(&o.g_counts)),
            format!(
                "gv:{}",
                if o.gv.is_empty() {
                    "-".to_string()
                } else {
                    o.gv.iter().map(|(a, b, h)| format!("{}/{}/{}", f_pr(*a), f_pr(*b), *h as u8)).collect::<Vec<_>>().join(",")
                }
            ),
            format!("gn:{}", f_nodes(&o.g_nodes)),
        )
    } else {
        ("g:PANIC".to_string(), "gv:PANIC".to_string(), "gn:PANIC".to_string())
    };
    let t10 = if o.nth_done { format!("nth:{}", list(&o.nth)) } else { "nth:PANIC".to_string() };
    let t11 = if o.cu_done {
        format!("cu:{}", if o.cu.is_empty() { "-".to_string() } else { o.cu.iter().map(f_cur).collect::<Vec<_>>().join("+") })
    } else {
        "cu:PANIC".to_string()
    };
    let t12 = if o.g_done {
        format!(
            "bv:{}",
            if o.bv.is_empty() {
                "-".to_string()
            } else {
                o.bv
                    .iter()
                    .map(|(p, row)| format!("{}/{}", p, row.iter().map(|(a, b)| format!("{}:{}", a.show(), b.show())).collect::<Vec<_>>().join(",")))
                    .collect::<Vec<_>>()
                    .join("+")
            }
        )
    } else {
        "bv:PANIC".to_string()
    };
    let t13 = if o.it_done {
        let l1: Vec<usize> = o.it_ops.iter().map(|x| x.0).collect();
        let l2: Vec<bool> = o.it_ps.iter().map(|x| x.is_some()).collect();
        format!("it:{}.{}/{}/{}", o.it_a, o.it_b, list(&l1), bits(&l2))
    } else {
        format!("it:{}.{}/PANIC/PANIC", o.it_a, o.it_b)
    };
    [t1, t2, t3, t4, t5, t6, t7, t8, t9, t10, t11, t12, t13, "inv1".to_string()].join(" ")
}

// -------------------------------------------------------------------------------------------
// oracle: everything against a direct scan of get_pth(0..get_cutoff())
// -------------------------------------------------------------------------------------------

#[derive(Clone, Debug)]
struct SOp {
    bond: usize,
    vars: Vec<usize>,
}

fn scan(c: &FastOps) -> Vec<Option<SOp>> {
    (0..c.get_cutoff())
        .map(|p| c.get_pth(p).map(|o| SOp { bond: o.get_bond(), vars: o.get_vars().to_vec() }))
        .collect()
}
fn relv_of(o: &SOp, v: usize) -> Option<usize> {
    o.vars.iter().position(|x| *x == v)
}
fn prev_occ(s: &[Option<SOp>], p: usize) -> Option<usize> {
    (0..p.min(s.len())).rev().find(|q| s[*q].is_some())
}
fn next_occ(s: &[Option<SOp>], p: usize) -> Option<usize> {
    (p + 1..s.len()).find(|q| s[*q].is_some())
}
fn prev_var(s: &[Option<SOp>], p: usize, v: usize) -> Option<PR> {
    (0..p.min(s.len())).rev().find_map(|q| s[q].as_ref().and_then(|o| relv_of(o, v)).map(|r| (q, r)))
}
fn next_var(s: &[Option<SOp>], p: usize, v: usize) -> Option<PR> {
    (p + 1..s.len()).find_map(|q| s[q].as_ref().and_then(|o| relv_of(o, v)).map(|r| (q, r)))
}

macro_rules! chk {
    ($what:expr, $got:expr, $exp:expr) => {
        if $got != $exp {
            return Err(format!("{}: got {:?} expected {:?}", $what, $got, $exp));
        }
    };
}

/// Compare a cursor filled by the non-hint path (before the mutation) with a direct scan.
fn check_prefill(cur: &CurObs, s: &[Option<SOp>], listed: &[usize], how: &str) -> Result<(), String> {
    let ps = cur.p;
    chk!(format!("pre-mutation cursor ({} fill at ps={}).last_p", how, ps), cur.last_p, prev_occ(s, ps));
    chk!(format!("pre-mutation cursor ({} fill at ps={}).last_vars.len()", how, ps), cur.lv.len(), listed.len());
    chk!(format!("pre-mutation cursor ({} fill at ps={}).last_rels.len()", how, ps), cur.lr.len(), listed.len());
    let mut with_ops = 0;
    let mut below = 0;
    for (i, v) in listed.iter().enumerate() {
        let e = prev_var(s, ps, *v);
        if s.iter().flatten().any(|o| o.vars.contains(v)) {
            with_ops += 1;
        }
        if e.is_some() {
            below += 1;
        }
        chk!(format!("pre-mutation cursor ({} fill at ps={}).last_vars[{}] (var {})", how, ps, i, v), cur.lv[i], e.map(|x| x.0));
        chk!(format!("pre-mutation cursor ({} fill at ps={}).last_rels[{}] (var {})", how, ps, i, v), cur.lr[i], e.map(|x| x.1));
    }
    // `unfilled` is a transient work counter of the fill, not bookkeeping about the contents: a wrong
    // value matters only through last_p / last_vars / last_rels (checked above) or through what the
    // mutation then does to the container (checked by the oracle afterwards), so it is not a verdict here.
    let _ = (with_ops, below);
    Ok(())
}

fn check_nodes(which: &str, nodes: &[NodeObs], s: &[Option<SOp>]) -> Result<(), String> {
    let occ: Vec<usize> = (0..s.len()).filter(|p| s[*p].is_some()).collect();
    let got: Vec<usize> = nodes.iter().map(|n| n.p).collect();
    chk!(format!("{} occupied positions", which), got, occ);
    for n in nodes {
        let op = s[n.p].as_ref().unwrap();
        chk!(format!("{} previous_p at p={}", which, n.p), n.prev, prev_occ(s, n.p));
        chk!(format!("{} next_p at p={}", which, n.p), n.next, next_occ(s, n.p));
        chk!(format!("{} previous_for_vars length at p={}", which, n.p), n.prevs.len(), op.vars.len());
        chk!(format!("{} next_for_vars length at p={}", which, n.p), n.nexts.len(), op.vars.len());
        for (k, v) in op.vars.iter().enumerate() {
            chk!(format!("{} previous_for_vars[{}] (var {}) at p={}", which, k, v, n.p), n.prevs[k], prev_var(s, n.p, *v));
            chk!(format!("{} next_for_vars[{}] (var {}) at p={}", which, k, v, n.p), n.nexts[k], next_var(s, n.p, *v));
        }
    }
    Ok(())
}

/// `expect`: the harness's own slot array (None for probes, where only self-consistency is asked).
fn oracle(o: &Obs, s: &[Option<SOp>], nvars: usize, nb: Option<Option<usize>>, expect: Option<&Naive>) -> Result<(), String> {
    // 0. contents equal the naive slot array
    if let Some(nv) = expect {
        chk!("get_cutoff", o.cutoff, nv.len());
        let want = nv.slot_strings();
        for p in 0..o.cutoff {
            chk!(format!("get_pth({})", p), o.slots[p], want[p]);
        }
    }
    chk!("scan length vs get_cutoff", s.len(), o.cutoff);
    let occ: Vec<usize> = (0..s.len()).filter(|p| s[*p].is_some()).collect();
    let n = occ.len();
    let count = |b: usize| s.iter().flatten().filter(|op| op.bond == b).count();
    let first_last_var = |v: usize| -> Option<(PR, PR)> {
        let first = (0..s.len()).find_map(|q| s[q].as_ref().and_then(|op| relv_of(op, v)).map(|r| (q, r)));
        let last = (0..s.len()).rev().find_map(|q| s[q].as_ref().and_then(|op| relv_of(op, v)).map(|r| (q, r)));
        first.zip(last)
    };
    // 1. private fields (serde snapshot)
    chk!("field ops.len()", o.s_len, o.cutoff);
    chk!("field n", o.s_n, n);
    chk!("field p_ends", o.s_pe, occ.first().cloned().zip(occ.last().cloned()));
    chk!("field var_ends.len()", o.s_ve.len(), nvars);
    for v in 0..nvars {
        chk!(format!("field var_ends[{}]", v), o.s_ve[v], first_last_var(v));
    }
    if let Some(nb) = nb {
        match (nb, &o.s_bc) {
            (None, None) => {}
            (Some(nb), Some(bc)) => {
                chk!("field bond_counters.len()", bc.len(), nb);
                for b in 0..nb {
                    chk!(format!("field bond_counters[{}]", b), bc[b], count(b));
                }
            }
            (a, b) => return Err(format!("field bond_counters presence: got {:?} expected {:?}", b.as_ref().map(|x| x.len()), a)),
        }
    } else if let Some(bc) = &o.s_bc {
        for b in 0..bc.len() {
            chk!(format!("field bond_counters[{}]", b), bc[b], count(b));
        }
    }
    check_nodes("field", &o.s_nodes, s)?;
    // 2. public getters
    if !o.g_done {
        return Err(format!("getter panicked: {}", o.panic.clone().unwrap_or_default()));
    }
    chk!("get_n", o.g_n, n);
    chk!("get_first_p", o.g_first, occ.first().cloned());
    chk!("get_last_p", o.g_last, occ.last().cloned());
    for b in 0..8 {
        chk!(format!("get_count({})", b), o.g_counts[b], count(b));
    }
    chk!("get_nvars", o.gv.len(), nvars);
    for v in 0..nvars {
        let fl = first_last_var(v);
        chk!(format!("get_first_p_for_var({})", v), o.gv[v].0, fl.map(|x| x.0));
        chk!(format!("get_last_p_for_var({})", v), o.gv[v].1, fl.map(|x| x.1));
        chk!(format!("does_var_have_ops({})", v), o.gv[v].2, fl.is_some());
    }
    check_nodes("getter", &o.g_nodes, s)?;
    // by-variable accessors (default trait methods on top of the rel-var ones)
    let bvpos: Vec<usize> = o.bv.iter().map(|x| x.0).collect();
    chk!("by-variable accessors: occupied positions", bvpos, occ);
    let idx_of = |p: usize| occ.iter().position(|q| *q == p);
    for (i, (p, row)) in o.bv.iter().enumerate() {
        let p = *p;
        let op = s[p].as_ref().unwrap();
        chk!(format!("by-variable accessors at p={}: number of variables", p), row.len(), nvars);
        for v in 0..nvars {
            let (pr, nx) = &row[v];
            if *pr == BV::P {
                return Err(format!("get_previous_p_for_var({}, node p={}) panicked", v, p));
            }
            if *nx == BV::P {
                return Err(format!("get_next_p_for_var({}, node p={}) panicked", v, p));
            }
            match relv_of(op, v) {
                None => {
                    chk!(format!("get_previous_p_for_var({}, node p={}) (variable not on the op)", v, p), *pr, BV::E);
                    chk!(format!("get_next_p_for_var({}, node p={}) (variable not on the op)", v, p), *nx, BV::E);
                }
                Some(k) => {
                    chk!(format!("get_previous_p_for_var({}, node p={}) vs scan", v, p), *pr, BV::O(prev_var(s, p, v)));
                    chk!(format!("get_next_p_for_var({}, node p={}) vs scan", v, p), *nx, BV::O(next_var(s, p, v)));
                    chk!(format!("get_previous_p_for_var({}, node p={}) vs get_previous_p_for_rel_var({})", v, p, k), *pr, BV::O(o.g_nodes[i].prevs[k]));
                    chk!(format!("get_next_p_for_var({}, node p={}) vs get_next_p_for_rel_var({})", v, p, k), *nx, BV::O(o.g_nodes[i].nexts[k]));
                    if let BV::O(Some((q, r))) = nx {
                        let j = idx_of(*q).ok_or_else(|| format!("get_next_p_for_var({}, node p={}) points at empty slot {}", v, p, q))?;
                        chk!(format!("relv returned by get_next_p_for_var({}, node p={}) vs index of the variable in the op at {}", v, p, q), Some(*r), relv_of(s[*q].as_ref().unwrap(), v));
                        chk!(format!("backward link: get_previous_p_for_var({}, node p={}) after following next from p={}", v, q, p), o.bv[j].1[v].0, BV::O(Some((p, k))));
                    }
                    if let BV::O(Some((q, r))) = pr {
                        let j = idx_of(*q).ok_or_else(|| format!("get_previous_p_for_var({}, node p={}) points at empty slot {}", v, p, q))?;
                        chk!(format!("relv returned by get_previous_p_for_var({}, node p={}) vs index of the variable in the op at {}", v, p, q), Some(*r), relv_of(s[*q].as_ref().unwrap(), v));
                        chk!(format!("forward link: get_next_p_for_var({}, node p={}) after following previous from p={}", v, q, p), o.bv[j].1[v].1, BV::O(Some((p, k))));
                    }
                }
            }
        }
    }
    if !o.nth_done {
        return Err(format!("get_nth_p panicked: {}", o.panic.clone().unwrap_or_default()));
    }
    chk!("get_nth_p(0..n)", o.nth, occ);
    // iteration: ops in [a, b] (upper bound inclusive in the real code), slots in a..min(b, cutoff)
    if !o.it_done {
        return Err(format!("iterate_ops / iterate_ps panicked: {}", o.panic.clone().unwrap_or_default()));
    }
    let want_ops: Vec<(usize, String)> = (o.it_a..=o.it_b).filter(|p| *p < o.cutoff).filter_map(|p| o.slots[p].clone().map(|x| (p, x))).collect();
    let want_ps: Vec<Option<String>> = (o.it_a..o.it_b.min(o.cutoff)).map(|p| o.slots[p].clone()).collect();
    chk!(format!("iterate_ops({}, {})", o.it_a, o.it_b), o.it_ops, want_ops);
    chk!(format!("try_iterate_ops({}, {})", o.it_a, o.it_b), o.it_try_ops, want_ops);
    chk!(format!("iterate_ps({}, {})", o.it_a, o.it_b), o.it_ps, want_ps);
    chk!(format!("try_iterate_ps({}, {})", o.it_a, o.it_b), o.it_try_ps, want_ps);
    if !o.cu_done {
        return Err(format!("fill_args_at_p panicked: {}", o.panic.clone().unwrap_or_default()));
    }
    let vars_with_ops = (0..nvars).filter(|v| first_last_var(*v).is_some()).count();
    for c in &o.cu {
        chk!(format!("cursor({}).last_p", c.p), c.last_p, prev_occ(s, c.p));
        chk!(format!("cursor({}).last_vars.len()", c.p), c.lv.len(), nvars);
        chk!(format!("cursor({}).last_rels.len()", c.p), c.lr.len(), nvars);
        let mut below = 0;
        for v in 0..nvars {
            let e = prev_var(s, c.p, v);
            if e.is_some() {
                below += 1;
            }
            chk!(format!("cursor({}).last_vars[{}]", c.p, v), c.lv[v], e.map(|x| x.0));
            chk!(format!("cursor({}).last_rels[{}]", c.p, v), c.lr[v], e.map(|x| x.1));
        }
        chk!(format!("cursor({}).unfilled", c.p), c.unfilled, vars_with_ops - below);
    }
    if let Some(p) = &o.panic {
        return Err(format!("getter panicked: {}", p));
    }
    Ok(())
}

// -------------------------------------------------------------------------------------------
// running a sequence from scratch (shrinking) and delta debugging
// -------------------------------------------------------------------------------------------

fn cursor_positions_all(len: usize) -> Vec<usize> {
    if len <= 48 {
        (0..len).collect()
    } else {
        let mut v: Vec<usize> = (0..16).map(|i| i * (len - 1) / 15).collect();
        v.dedup();
        v
    }
}

/// One step on the real container + oracle. Err = (message) on panic / mismatch.
fn step_real(c: &mut Option<FastOps>, m: &Mut, nv: &Naive, qs: &[usize]) -> (Option<Obs>, Result<(), String>) {
    let mut pre: Option<String> = None;
    let applied = catch(|| apply_real(c, m, &mut pre));
    if let Err(p) = applied {
        drain_pool_log();
        let e = match pre {
            Some(e) => format!("{} ;; then {} panicked: {}", e, m.kind(), p),
            None => format!("{} panicked inside the valid domain: {}", m.kind(), p),
        };
        return (None, Err(e));
    }
    let cc = c.as_mut().unwrap();
    let o = observe(cc, qs);
    let s = scan(cc);
    drain_pool_log();
    let r = match pre {
        Some(e) => Err(e),
        None => oracle(&o, &s, nv.nvars, Some(nv.nb), Some(nv)),
    };
    (Some(o), r)
}

/// Sanitize + run a candidate; returns the (sanitized, truncated) failing sequence and its message.
fn test_candidate(seq: &[Mut]) -> Option<(Vec<Mut>, String)> {
    if seq.is_empty() || !matches!(seq[0], Mut::New { .. } | Mut::Install { .. }) {
        return None;
    }
    let mut nv = Naive::empty();
    let mut c: Option<FastOps> = None;
    let mut done: Vec<Mut> = vec![];
    for (i, m) in seq.iter().enumerate() {
        let m = if i == 0 {
            m.clone()
        } else {
            match nv.sanitize(m) {
                Some(m) => m,
                None => continue,
            }
        };
        nv.apply(&m, None);
        let qs = cursor_positions_all(nv.len());
        let (_, r) = step_real(&mut c, &m, &nv, &qs);
        done.push(m);
        if let Err(e) = r {
            return Some((done, e));
        }
    }
    None
}

fn shrink(seq: Vec<Mut>, msg: String) -> (Vec<Mut>, String) {
    let t0 = std::time::Instant::now();
    let budget = std::time::Duration::from_secs(25);
    // make sure it reproduces from scratch at all
    let (mut cur, mut msg) = match test_candidate(&seq) {
        Some(x) => x,
        None => return (seq, format!("{} (did not reproduce when replayed from scratch)", msg)),
    };
    // 1. ddmin over the mutations after the first
    let mut n = 2usize;
    while cur.len() > 2 && t0.elapsed() < budget {
        let body = cur.len() - 1;
        let chunk = (body + n - 1) / n;
        let mut reduced = false;
        let mut start = 1;
        while start < cur.len() {
            let end = (start + chunk).min(cur.len());
            let cand: Vec<Mut> = cur[..start].iter().chain(cur[end..].iter()).cloned().collect();
            if let Some((c2, m2)) = test_candidate(&cand) {
                if c2.len() < cur.len() {
                    cur = c2;
                    msg = m2;
                    n = n.saturating_sub(1).max(2);
                    reduced = true;
                    break;
                }
            }
            if t0.elapsed() >= budget {
                break;
            }
            start = end;
        }
        if !reduced {
            if chunk <= 1 {
                break;
            }
            n = (n * 2).min(body);
        }
    }
    // 2. simplify inside the remaining mutations: acts -> k, installed ops dropped
    let mut progress = true;
    while progress && t0.elapsed() < budget {
        progress = false;
        'outer: for i in 0..cur.len() {
            let variants: Vec<Mut> = match &cur[i] {
                Mut::Ps { ps, pe, acts } | Mut::Ops { ps, pe, acts } => {
                    let is_ops = matches!(cur[i], Mut::Ops { .. });
                    (0..acts.len())
                        .filter(|k| acts[*k] != Act::K)
                        .map(|k| {
                            let mut a = acts.clone();
                            a[k] = Act::K;
                            if is_ops {
                                Mut::Ops { ps: *ps, pe: *pe, acts: a }
                            } else {
                                Mut::Ps { ps: *ps, pe: *pe, acts: a }
                            }
                        })
                        .collect()
                }
                Mut::Sub { is_ops, vars, fill, ps, pe, acts } => {
                    let mk = |f: Fill, a: Vec<Act>| Mut::Sub { is_ops: *is_ops, vars: vars.clone(), fill: f, ps: *ps, pe: *pe, acts: a };
                    let mut v: Vec<Mut> = (0..acts.len())
                        .filter(|k| acts[*k] != Act::K)
                        .map(|k| {
                            let mut a = acts.clone();
                            a[k] = Act::K;
                            mk(fill.clone(), a)
                        })
                        .collect();
                    if let Fill::Hint(hints) = fill {
                        for k in 0..hints.len() {
                            if hints[k].is_some() {
                                let mut h = hints.clone();
                                h[k] = None;
                                v.push(mk(Fill::Hint(h), acts.clone()));
                            }
                        }
                    }
                    v
                }
                Mut::Install { nvars, ops } => (0..ops.len())
                    .map(|k| {
                        let mut o = ops.clone();
                        o.remove(k);
                        Mut::Install { nvars: *nvars, ops: o }
                    })
                    .collect(),
                _ => vec![],
            };
            for v in variants {
                let mut cand = cur.clone();
                cand[i] = v;
                if let Some((c2, m2)) = test_candidate(&cand) {
                    if c2.len() <= cur.len() {
                        cur = c2;
                        msg = m2;
                        progress = true;
                        break 'outer;
                    }
                }
                if t0.elapsed() >= budget {
                    break 'outer;
                }
            }
        }
    }
    (cur, msg)
}

fn fail_message(first: &str, seq: Vec<Mut>) -> String {
    let (min, msg) = shrink(seq, first.to_string());
    let shown: Vec<String> = min.iter().take(12).map(|m| m.line_notag()).collect();
    let more = if min.len() > 12 { format!(" ;; (+{} more lines)", min.len() - 12) } else { String::new() };
    format!("{} ;; minimal ({} lines): {} ;; at the minimal sequence: {}{}", first, min.len(), shown.join(" ;; "), msg, more)
}

// -------------------------------------------------------------------------------------------
// generator
// -------------------------------------------------------------------------------------------

#[derive(Clone, Copy, Debug, PartialEq, Eq)]
enum Style {
    Mixed,
    Single,
    EmptyRefill,
}

#[derive(Clone, Debug)]
struct Hist {
    nvars: usize,
    nb: Option<usize>,
    bondlim: usize,
    cap: usize,
    dens: u64, // target occupancy in percent
    len: usize,
    style: Style,
    install: bool,
    /// variables ops may use (all of them, or only the high ones in the high-variables style)
    pool: Vec<usize>,
    highvars: bool,
}

fn rand_vars(g: &mut SplitMix64, pool: &[usize], k: usize) -> Vec<usize> {
    let mut pool = pool.to_vec();
    let mut out = vec![];
    for _ in 0..k {
        let i = g.below(pool.len() as u64) as usize;
        out.push(pool.remove(i));
    }
    out
}

fn rand_bits(g: &mut SplitMix64, k: usize) -> Vec<bool> {
    (0..k).map(|_| g.coin()).collect()
}

fn op_on(g: &mut SplitMix64, h: &Hist, vars: Vec<usize>, bond: Option<usize>) -> OpS {
    let k = vars.len();
    let ins = rand_bits(g, k);
    let diag = g.coin();
    let outs = if diag {
        ins.clone()
    } else if g.chance(1, 5) {
        ins.clone() // offdiagonal constructor with equal in/out
    } else {
        rand_bits(g, k)
    };
    OpS { bond: bond.unwrap_or_else(|| g.below(h.bondlim as u64) as usize), vars, ins, outs, diag, constant: g.chance(1, 3) }
}

fn rand_op(g: &mut SplitMix64, h: &Hist, pool: &[usize]) -> OpS {
    let maxk = pool.len().min(3);
    let k = match g.below(100) {
        0..=44 => 1,
        45..=84 => 2,
        _ => 3,
    }
    .min(maxk);
    let vars = rand_vars(g, pool, k);
    op_on(g, h, vars, None)
}

/// identical vars list (fast path); bond different in about half of the cases
fn same_vars_op(g: &mut SplitMix64, h: &Hist, old: &OpS, force_diff_bond: bool) -> OpS {
    let bond = if h.bondlim > 1 && (force_diff_bond || g.coin()) {
        let b = g.below(h.bondlim as u64 - 1) as usize;
        if b >= old.bond {
            b + 1
        } else {
            b
        }
    } else {
        old.bond
    };
    op_on(g, h, old.vars.clone(), Some(bond))
}

/// an op whose vars list differs from `old.vars` (falls back to same vars when impossible)
fn diff_vars_op(g: &mut SplitMix64, h: &Hist, old: &OpS, pool: &[usize]) -> OpS {
    if old.vars.len() >= 2 && old.vars.iter().all(|v| pool.contains(v)) && g.chance(1, 4) {
        // a permutation of the same variables: not the fast path (`==` on the lists fails)
        let mut vars = old.vars.clone();
        vars.rotate_left(1);
        let bond = if g.coin() { Some(old.bond) } else { None };
        return op_on(g, h, vars, bond);
    }
    for _ in 0..8 {
        let o = rand_op(g, h, pool);
        if o.vars != old.vars {
            return o;
        }
    }
    same_vars_op(g, h, old, false)
}

fn occupancy_pct(nv: &Naive) -> u64 {
    if nv.len() == 0 {
        0
    } else {
        (100 * nv.n_occ() / nv.len()) as u64
    }
}

/// act for one position of a `ps`-like sweep (`pool` = variables new ops may use; `elig` = position may change)
fn sweep_act(g: &mut SplitMix64, h: &Hist, nv: &Naive, old: Option<&OpS>, pool: &[usize], activity: u64, allow_r: bool) -> Act {
    if pool.is_empty() || !g.chance(activity, 100) {
        return Act::K;
    }
    let over = occupancy_pct(nv) > h.dens;
    match old {
        Some(o) => {
            let r = g.below(100);
            let p_remove = if !allow_r {
                0
            } else if over {
                55
            } else {
                20
            };
            if r < p_remove {
                Act::R
            } else if r < p_remove + (100 - p_remove) / 2 {
                let fdb = g.chance(1, 3);
                Act::S(same_vars_op(g, h, o, fdb))
            } else {
                Act::S(diff_vars_op(g, h, o, pool))
            }
        }
        None => {
            let r = g.below(100);
            let p_ins = if over { 20 } else { 70 };
            if r < p_ins {
                Act::S(rand_op(g, h, pool))
            } else if allow_r && r < p_ins + 10 {
                Act::R
            } else {
                Act::K
            }
        }
    }
}

fn pick_activity(g: &mut SplitMix64) -> u64 {
    *g.pick(&[10u64, 30, 30, 60, 60, 100])
}

/// choose a sweep range; returns (ps, pe) with ps <= pe <= cap, ps < max(len, pe)
fn pick_range(g: &mut SplitMix64, h: &Hist, len: usize, ps_at_most_len: bool) -> (usize, usize) {
    let grow = len < h.cap && g.chance(1, 10);
    if grow {
        let pe = len + 1 + g.below(((h.cap - len).min(8)) as u64) as usize;
        let ps = if ps_at_most_len { g.below(len as u64 + 1) as usize } else { g.below(pe as u64) as usize };
        return (ps.min(pe - 1), pe);
    }
    // no growth: need ps < len
    debug_assert!(len > 0);
    match g.below(10) {
        0..=2 => (0, len),
        3 => {
            let ps = g.below(len as u64) as usize;
            (ps, ps) // empty range
        }
        4 => {
            let ps = g.below(len as u64) as usize;
            (ps, (ps + 1).min(len))
        }
        _ => {
            let a = g.below(len as u64) as usize;
            let b = g.below(len as u64 + 1) as usize;
            if a <= b {
                (a, b)
            } else {
                (b, a)
            }
        }
    }
}

fn gen_ps(g: &mut SplitMix64, h: &Hist, nv: &Naive) -> Mut {
    let len = nv.len();
    let (ps, pe) = pick_range(g, h, len, false);
    let activity = pick_activity(g);
    let all = h.pool.clone();
    let acts = (ps..pe).map(|p| sweep_act(g, h, nv, if p < len { nv.slots[p].as_ref() } else { None }, &all, activity, true)).collect();
    Mut::Ps { ps, pe, acts }
}

fn gen_clear(nv: &Naive, g: &mut SplitMix64) -> Mut {
    let len = nv.len();
    let all: Vec<usize> = (0..nv.nvars).collect();
    match g.below(3) {
        0 => Mut::Ps { ps: 0, pe: len, acts: vec![Act::R; len] },
        1 => {
            // only the occupied ones get `r`
            let acts = (0..len).map(|p| if nv.slots[p].is_some() { Act::R } else { Act::K }).collect();
            Mut::Ps { ps: 0, pe: len, acts }
        }
        _ => {
            // sub-variable ops sweep over all variables removes everything as well
            let acts = (0..=len).map(|p| if p < len && nv.slots[p].is_some() { Act::R } else { Act::K }).collect();
            let fill = match g.below(3) {
                0 => Fill::Hint(vec![None; all.len()]),
                1 => Fill::N,
                _ => Fill::A,
            };
            Mut::Sub { is_ops: true, vars: Some(all.clone()), fill, ps: 0, pe: len, acts }
        }
    }
}

fn gen_ops(g: &mut SplitMix64, h: &Hist, nv: &Naive) -> Mut {
    let len = nv.len();
    // pe is inclusive here; keep it <= cap (the array is grown to pe)
    let (ps, pe) = if g.chance(1, 4) {
        (0, if g.coin() { len } else { len - 1 })
    } else {
        let (a, b) = pick_range(g, h, len, false);
        (a, b)
    };
    let activity = pick_activity(g).max(30);
    let all = h.pool.clone();
    let acts = (ps..=pe)
        .map(|p| {
            if p < len && nv.slots[p].is_some() {
                sweep_act(g, h, nv, nv.slots[p].as_ref(), &all, activity, false)
            } else {
                Act::K
            }
        })
        .collect();
    Mut::Ops { ps, pe, acts }
}

fn gen_sub(g: &mut SplitMix64, h: &Hist, nv: &Naive, is_ops: bool) -> Mut {
    let len = nv.len();
    // fill mode: 1/3 hint, 1/3 N (plain fill_args_at_p), 1/3 A (through SubvarAccess::Args); `*` in 1/4 of N/A
    let mode = g.below(3);
    let star = mode != 0 && g.chance(1, 4);
    let all: Vec<usize> = (0..h.nvars).collect();
    // random subset (any variables, random order); in the high-variables style mostly the high ones
    let source: &[usize] = if h.highvars && g.chance(7, 10) { &h.pool } else { &all };
    let k = match g.below(10) {
        0..=3 => 1,
        4..=6 => 2,
        7..=8 => 3,
        _ => source.len(),
    }
    .min(source.len());
    let mut vars = rand_vars(g, source, k);
    let (mut ps, pe) = pick_range(g, h, len, true);
    if mode != 0 && ps >= len {
        ps = len - 1; // fill_args_at_p indexes ops[ps] before the array is grown
    }
    if mode != 0 && !star {
        // stay off the documented boundary: no listed variable has an op although a slot below ps is occupied
        let listed_has_op = nv.slots.iter().flatten().any(|o| o.vars.iter().any(|v| vars.contains(v)));
        let below_occ = nv.slots[..ps].iter().any(|x| x.is_some());
        if !listed_has_op && below_occ {
            let with_ops: Vec<usize> = all.iter().cloned().filter(|v| nv.slots.iter().flatten().any(|o| o.vars.contains(v))).collect();
            vars[0] = *g.pick(&with_ops);
        }
    }
    let fill = match mode {
        0 => Fill::Hint(
            // hints: `_` or any position holding an op that contains the variable
            vars.iter()
                .map(|v| {
                    let cands: Vec<usize> = (0..len).filter(|p| nv.slots[*p].as_ref().map(|o| o.vars.contains(v)).unwrap_or(false)).collect();
                    if cands.is_empty() || g.chance(2, 5) {
                        None
                    } else if cands.contains(&ps) && g.chance(1, 3) {
                        Some(ps)
                    } else {
                        Some(*g.pick(&cands))
                    }
                })
                .collect(),
        ),
        1 => Fill::N,
        _ => Fill::A,
    };
    let activity = pick_activity(g).max(30);
    let upto = if is_ops { pe + 1 } else { pe };
    let acts: Vec<Act> = if star {
        // `*`: exactly the domain of ps / ops
        (ps..upto)
            .map(|p| {
                let old = if p < len { nv.slots[p].as_ref() } else { None };
                if is_ops {
                    if old.is_some() {
                        sweep_act(g, h, nv, old, &h.pool, activity, false)
                    } else {
                        Act::K
                    }
                } else {
                    sweep_act(g, h, nv, old, &h.pool, activity, true)
                }
            })
            .collect()
    } else {
        let pool: Vec<usize> = vars.iter().cloned().filter(|v| h.pool.contains(v)).collect();
        (ps..upto)
            .map(|p| {
                let old = if p < len { nv.slots[p].as_ref() } else { None };
                let elig = old.map(|o| o.vars.iter().all(|v| vars.contains(v))).unwrap_or(true);
                if !elig || (is_ops && old.is_none()) {
                    Act::K
                } else if pool.is_empty() {
                    // no new op can be built from the listed variables: only removals
                    if old.is_some() && g.chance(activity, 100) && g.coin() {
                        Act::R
                    } else {
                        Act::K
                    }
                } else {
                    sweep_act(g, h, nv, old, &pool, activity, true)
                }
            })
            .collect()
    };
    Mut::Sub { is_ops, vars: if star { None } else { Some(vars) }, fill, ps, pe, acts }
}

fn gen_set(g: &mut SplitMix64, h: &Hist, nv: &Naive) -> Mut {
    let len = nv.len();
    let all = h.pool.clone();
    let occ: Vec<usize> = (0..len).filter(|p| nv.slots[*p].is_some()).collect();
    let emp: Vec<usize> = (0..len).filter(|p| nv.slots[*p].is_none()).collect();
    let want_empty = if occupancy_pct(nv) > h.dens { g.chance(3, 10) } else { g.chance(7, 10) };
    let p = if want_empty && !emp.is_empty() {
        *g.pick(&emp)
    } else if !occ.is_empty() {
        *g.pick(&occ)
    } else {
        g.below(len as u64) as usize
    };
    let act = match nv.slots[p].as_ref() {
        None => match g.below(10) {
            0 => Act::K,
            1 => Act::R,
            _ => Act::S(rand_op(g, h, &all)),
        },
        Some(o) => match g.below(100) {
            0..=29 => Act::R,
            30..=49 => Act::S(same_vars_op(g, h, o, false)),
            50..=64 => Act::S(same_vars_op(g, h, o, true)),
            65..=92 => Act::S(diff_vars_op(g, h, o, &all)),
            _ => Act::K,
        },
    };
    Mut::Set { p, act }
}

fn gen_cutoff(g: &mut SplitMix64, h: &Hist, nv: &Naive) -> Mut {
    let len = nv.len();
    if len >= h.cap || g.chance(1, 4) {
        Mut::Cutoff(g.below(len as u64 + 1) as usize) // not larger: nothing happens
    } else {
        Mut::Cutoff(len + 1 + g.below(((h.cap - len).min(8)) as u64) as usize)
    }
}

fn gen_first_growth(g: &mut SplitMix64, h: &Hist, nv: &Naive) -> Mut {
    // cutoff is 0: only growth is possible
    if g.chance(3, 5) {
        Mut::Cutoff(1 + g.below(h.cap.min(12) as u64) as usize)
    } else {
        let pe = 1 + g.below(h.cap.min(10) as u64) as usize;
        let all = h.pool.clone();
        let acts = (0..pe).map(|_| sweep_act(g, h, nv, None, &all, 60, true)).collect();
        Mut::Ps { ps: 0, pe, acts }
    }
}

fn gen_single(g: &mut SplitMix64, h: &Hist, nv: &Naive) -> Mut {
    // keep at most one op in the container: insert one, look at it, remove it, insert elsewhere...
    let len = nv.len();
    let all = h.pool.clone();
    let occ: Vec<usize> = (0..len).filter(|p| nv.slots[*p].is_some()).collect();
    let rand_fill = |g: &mut SplitMix64, hints: Vec<Option<usize>>| match g.below(3) {
        0 => Fill::Hint(hints),
        1 => Fill::N,
        _ => Fill::A,
    };
    if occ.is_empty() {
        let p = g.below(len as u64) as usize;
        let op = rand_op(g, h, &all);
        match g.below(4) {
            0 => {
                let mut acts = vec![Act::K; len];
                acts[p] = Act::S(op);
                Mut::Ps { ps: 0, pe: len, acts }
            }
            1 => Mut::Ps { ps: p, pe: p + 1, acts: vec![Act::S(op)] },
            2 => {
                let vars = op.vars.clone();
                let n = vars.len();
                let fill = rand_fill(g, vec![None; n]);
                Mut::Sub { is_ops: false, vars: Some(vars), fill, ps: p, pe: p + 1, acts: vec![Act::S(op)] }
            }
            _ => Mut::Set { p, act: Act::S(op) },
        }
    } else {
        let p = occ[0];
        let old = nv.slots[p].clone().unwrap();
        match g.below(8) {
            0 => {
                let fdb = g.coin();
                Mut::Set { p, act: Act::S(same_vars_op(g, h, &old, fdb)) }
            }
            1 => Mut::Set { p, act: Act::S(diff_vars_op(g, h, &old, &all)) },
            2 => gen_clear(nv, g),
            3 => Mut::Ps { ps: p, pe: p + 1, acts: vec![Act::R] },
            4 => {
                let n = old.vars.len();
                let hint = if g.coin() { Some(p) } else { None };
                let mut hints = vec![None; n];
                hints[0] = hint;
                let acts = (0..=len - p).map(|i| if i == 0 { Act::R } else { Act::K }).collect();
                let fill = rand_fill(g, hints);
                Mut::Sub { is_ops: true, vars: Some(old.vars.clone()), fill, ps: p, pe: len, acts }
            }
            5 => {
                if g.coin() {
                    gen_cutoff(g, h, nv)
                } else {
                    Mut::Set { p, act: Act::K }
                }
            }
            _ => Mut::Set { p, act: Act::R },
        }
    }
}

fn gen_step(g: &mut SplitMix64, h: &Hist, nv: &Naive, step: usize) -> Mut {
    let len = nv.len();
    if len == 0 {
        return gen_first_growth(g, h, nv);
    }
    if h.style == Style::Single {
        return gen_single(g, h, nv);
    }
    if nv.n_occ() > 0 {
        let clear = match h.style {
            Style::EmptyRefill => step % 17 == 16 || g.chance(1, 60),
            _ => g.chance(1, 70),
        };
        if clear {
            return gen_clear(nv, g);
        }
    }
    match g.below(100) {
        0..=37 => gen_set(g, h, nv),
        38..=57 => gen_ps(g, h, nv),
        58..=69 => gen_ops(g, h, nv),
        70..=74 => gen_cutoff(g, h, nv),
        75..=86 => gen_sub(g, h, nv, false),
        _ => gen_sub(g, h, nv, true),
    }
}

fn gen_install(g: &mut SplitMix64, h: &Hist) -> Mut {
    let all = h.pool.clone();
    let l = match g.below(10) {
        0 => 0,
        1 => 1,
        _ => 1 + g.below(h.cap as u64) as usize,
    };
    let mut ops = vec![];
    if l > 0 {
        let single = g.chance(1, 8);
        for p in 0..l {
            if !single && g.chance(h.dens.max(10), 100) {
                ops.push((p, rand_op(g, h, &all)));
            }
        }
        if single && l > 0 {
            let p = g.below(l as u64) as usize;
            ops.push((p, rand_op(g, h, &all)));
        }
    }
    Mut::Install { nvars: h.nvars, ops }
}

fn fnv(s: &str) -> u64 {
    let mut h = 0xcbf29ce484222325u64;
    for b in s.bytes() {
        h ^= b as u64;
        h = h.wrapping_mul(0x100000001b3);
    }
    h
}

fn pick_queries(g: &mut SplitMix64, len: usize) -> Vec<usize> {
    let mut q = vec![];
    if len == 0 {
        return q;
    }
    for _ in 0..g.below(4) {
        q.push(g.below(len as u64) as usize);
    }
    if g.chance(3, 20) {
        q.push(0);
    }
    if g.chance(3, 20) {
        q.push(len - 1);
    }
    q
}

/// Runs one history; returns (lines emitted, failed)
fn run_history(g: &mut SplitMix64, hidx: usize, h: &Hist, st: &mut Stats) -> (usize, bool) {
    let mut nv = Naive::empty();
    let mut c: Option<FastOps> = None;
    let mut seq: Vec<Mut> = vec![];
    let mut before = String::new();
    let mut lines = 0;
    for step in 0..h.len {
        let m = if step == 0 {
            if h.install {
                // install histories have no bond counters (new_from_ops)
                *st.entry("hist_install".into()).or_insert(0) += 1;
                gen_install(g, h)
            } else {
                Mut::New { nvars: h.nvars, nb: h.nb }
            }
        } else {
            gen_step(g, h, &nv, step)
        };
        if step > 0 {
            // the generator must stay inside the valid domain: sanitising must be the identity
            let s = nv.sanitize(&m);
            assert!(s.as_ref() == Some(&m), "generator left the valid domain: {} (sanitised: {:?})", m.line_notag(), s.map(|x| x.line_notag()));
        }
        let was_occ = nv.n_occ();
        nv.apply(&m, Some(st));
        if was_occ > 0 && nv.n_occ() == 0 {
            *st.entry("became_empty".into()).or_insert(0) += 1;
        }
        *st.entry(format!("kind_{}", m.kind())).or_insert(0) += 1;
        if let Mut::Sub { vars, fill, .. } = &m {
            let f = match fill {
                Fill::Hint(_) => "hint",
                Fill::N => "N",
                Fill::A => "A",
            };
            *st.entry(format!("{}_fill_{}", m.kind(), f)).or_insert(0) += 1;
            match vars {
                None => *st.entry(format!("{}_star", m.kind())).or_insert(0) += 1,
                Some(vs) => {
                    let leading = { let mut x = vs.clone(); x.sort(); x == (0..vs.len()).collect::<Vec<_>>() };
                    if !leading {
                        *st.entry(format!("{}_nonleading_varlist", m.kind())).or_insert(0) += 1;
                    }
                }
            }
        }
        let bucket = match nv.len() {
            0..=10 => "cutoff_le10",
            11..=40 => "cutoff_le40",
            41..=100 => "cutoff_le100",
            _ => "cutoff_le200",
        };
        *st.entry(bucket.into()).or_insert(0) += 1;
        let qs = pick_queries(g, nv.len());
        let tag = format!("h{}.{}.{:016x}", hidx, step, fnv(&before));
        let input = m.line(&tag, &qs);
        seq.push(m.clone());
        let (obs, r) = step_real(&mut c, &m, &nv, &qs);
        lines += 1;
        let nontrivial = nv.n_occ() > 0;
        if let Some(o) = &obs {
            // (p, v) pairs with v on the op: the by-variable accessors must answer; relv != v is where
            // passing the variable instead of its relative index shows
            for (p, _) in &o.bv {
                if let Some(Some(op)) = nv.slots.get(*p) {
                    for (k, v) in op.vars.iter().enumerate() {
                        *st.entry("byvar_checks".into()).or_insert(0) += 1;
                        if k != *v {
                            *st.entry("byvar_checks_relv_ne_var".into()).or_insert(0) += 1;
                        }
                    }
                }
            }
        }
        match (obs, r) {
            (Some(o), Ok(())) => {
                before = o.slots_str.clone();
                emit(nontrivial, &input, &format_obs(&o), Some(Ok(())));
            }
            (Some(o), Err(e)) => {
                let msg = fail_message(&e, seq.clone());
                emit(nontrivial, &input, &format_obs(&o), Some(Err(msg)));
                return (lines, true);
            }
            (None, Err(e)) => {
                let msg = fail_message(&e, seq.clone());
                emit(nontrivial, &input, "PANIC", Some(Err(msg)));
                return (lines, true);
            }
            (None, Ok(())) => unreachable!(),
        }
    }
    (lines, false)
}

fn pick_hist(g: &mut SplitMix64, thorough: bool) -> Hist {
    let mut nvars = 1 + g.below(6) as usize;
    // high-variables style (~15%): no op ever uses variable 0 (half of the time also not variable 1)
    let highvars = g.chance(3, 20);
    let mut pool: Vec<usize> = (0..nvars).collect();
    if highvars {
        if nvars < 3 {
            nvars = 3 + g.below(4) as usize;
        }
        let lo = if g.coin() { 2 } else { 1 };
        pool = (lo..nvars).collect();
    }
    let install = g.chance(1, 4);
    let nb = if install || g.chance(2, 5) { None } else { Some(1 + g.below(6) as usize) };
    let bondlim = nb.unwrap_or(6);
    let style = match g.below(20) {
        0..=1 => Style::Single,
        2..=4 => Style::EmptyRefill,
        _ => Style::Mixed,
    };
    let large = thorough && g.chance(1, 24);
    let (cap, len, dens) = if style == Style::Single {
        (*g.pick(&[1usize, 2, 3, 5, 8]), g.range(12, 60) as usize, 0)
    } else if large {
        (*g.pick(&[100usize, 150, 200]), g.range(600, 2000) as usize, *g.pick(&[5u64, 10, 20, 30]))
    } else if thorough {
        (
            *g.pick(&[2usize, 4, 8, 12, 20, 30, 40, 60]),
            match g.below(10) {
                0..=1 => g.range(20, 60),
                2..=7 => g.range(60, 300),
                _ => g.range(300, 600),
            } as usize,
            *g.pick(&[5u64, 15, 30, 50, 70, 90]),
        )
    } else {
        (
            *g.pick(&[2usize, 4, 8, 12, 20, 30, 40]),
            match g.below(10) {
                0..=1 => g.range(10, 40),
                2..=7 => g.range(40, 140),
                _ => g.range(140, 200),
            } as usize,
            *g.pick(&[5u64, 15, 30, 50, 70, 90]),
        )
    };
    Hist { nvars, nb, bondlim, cap, dens, len, style, install, pool, highvars }
}

// -------------------------------------------------------------------------------------------
// probes: documented excluded points, run once, STAT lines only
// -------------------------------------------------------------------------------------------

fn raw_op(vars: Vec<usize>, bond: usize) -> FastOp {
    let k = vars.len();
    FastOp::diagonal(vars, bond, vec![false; k], false)
}

fn probe_check(c: &mut FastOps, step: usize, log: &mut Vec<String>) {
    let qs: Vec<usize> = (0..c.get_cutoff()).collect();
    let o = observe(c, &qs);
    let s = scan(c);
    let nvars = c.get_nvars();
    if let Err(e) = oracle(&o, &s, nvars, None, None) {
        log.push(format!("step{}:{}", step, e));
    }
}

fn ins_at(c: &mut FastOps, p: usize, op: Option<FastOp>) {
    c.mutate_ps(p, p + 1, (), |_, _, t| (Some(op.clone()), t));
}

/// Outcome `consistent` / `corrupt:<first oracle mismatch>[;;<later ones>][;;then_panic:<msg>]` / `panic:<msg>`.
fn run_probe(name: &str, f: impl FnOnce(&mut Vec<String>)) {
    let mut log: Vec<String> = vec![];
    let r = catch(|| f(&mut log));
    drain_pool_log();
    let out = match (log.is_empty(), r) {
        (true, Ok(())) => "consistent".to_string(),
        (false, Ok(())) => format!("corrupt:{}", log.join(";;")),
        (true, Err(p)) => format!("panic:{}", p),
        (false, Err(p)) => format!("corrupt:{};;then_panic:{}", log.join(";;"), p),
    };
    let out: String = out.split_whitespace().collect::<Vec<_>>().join("_").replace('|', "/");
    stat(&format!("probe_{}", name), out);
}

fn probes() {
    // a. an op naming the same variable twice
    run_probe("selfloop", |log| {
        let mut c = FastOps::new_from_nvars(2);
        c.set_cutoff(4);
        ins_at(&mut c, 1, Some(raw_op(vec![1, 1], 0)));
        probe_check(&mut c, 1, log);
        ins_at(&mut c, 3, Some(raw_op(vec![1], 0)));
        probe_check(&mut c, 2, log);
        ins_at(&mut c, 1, None);
        probe_check(&mut c, 3, log);
    });
    // b. an op on zero variables is invisible to the cursor (unfilled counts variables, not ops)
    run_probe("zerovar", |log| {
        let mut c = FastOps::new_from_nvars(2);
        c.set_cutoff(4);
        ins_at(&mut c, 0, Some(raw_op(vec![], 0)));
        probe_check(&mut c, 1, log);
        ins_at(&mut c, 2, Some(raw_op(vec![0, 1], 0)));
        probe_check(&mut c, 2, log);
    });
    // c. Varlist cursor filled by the plain (no-hint) fill_args_at_p
    run_probe("varlist_nohint", |log| {
        let mut c = FastOps::new_from_nvars(3);
        c.set_cutoff(4);
        ins_at(&mut c, 0, Some(raw_op(vec![0, 1], 0)));
        probe_check(&mut c, 1, log);
        let vars = [2usize];
        let a = c.get_empty_args(SubvarAccess::Varlist(&vars));
        let a = c.fill_args_at_p(1, a);
        let op = raw_op(vec![2], 0);
        c.mutate_subsection(1, 2, (), |_, _, t| (Some(Some(op.clone())), t), Some(a));
        probe_check(&mut c, 2, log);
    });
    // d. removal from inside mutate_ops
    run_probe("ops_remove", |log| {
        let mut c = FastOps::new_from_nvars(2);
        c.set_cutoff(4);
        ins_at(&mut c, 1, Some(raw_op(vec![0], 0)));
        ins_at(&mut c, 2, Some(raw_op(vec![0, 1], 0)));
        probe_check(&mut c, 1, log);
        c.mutate_ops(0, 3, (), |_, _, p, t| (if p == 1 { Some(None) } else { None }, t));
        probe_check(&mut c, 2, log);
    });
    // f. (found while writing the generator) fill_args_at_p_with_hint at p > array length: its last
    //    statement scans get_node_ref(0..p) before mutate_subsection grows the array
    run_probe("hint_fill_beyond_len", |log| {
        let mut c = FastOps::new_from_nvars(1);
        c.set_cutoff(2);
        ins_at(&mut c, 0, Some(raw_op(vec![0], 0)));
        probe_check(&mut c, 1, log);
        let vars = [0usize];
        let mut a = c.get_empty_args(SubvarAccess::Varlist(&vars));
        c.fill_args_at_p_with_hint(4, &mut a, &vars, vec![None]);
        c.mutate_subsection(4, 6, (), |_, _, t| (None, t), Some(a));
        probe_check(&mut c, 2, log);
    });
    // e. mutate_ps starting at the array length
    run_probe("ps_start_at_len", |log| {
        let mut c = FastOps::new_from_nvars(1);
        c.set_cutoff(2);
        ins_at(&mut c, 0, Some(raw_op(vec![0], 0)));
        probe_check(&mut c, 1, log);
        c.mutate_ps(2, 2, (), |_, _, t| (None, t));
        probe_check(&mut c, 2, log);
    });
}


// -------------------------------------------------------------------------------------------
// malformed-install stream: `FastOps::new_from_ops(nvars, list)` with positions that are NOT
// strictly increasing must be rejected (the `assert!` in clear_and_install_ops panics); the model
// answers `panic` for exactly those lists. Well-formed lists (sorted, gaps, empty, single) are
// controls. Line: `installx <tag> <nvars> <p@op+p@op… in LIST order | -> q=…`.
// -------------------------------------------------------------------------------------------

fn strictly_increasing(ps: &[usize]) -> bool {
    ps.windows(2).all(|w| w[0] < w[1])
}

fn installx_small_op(g: &mut SplitMix64, nvars: usize) -> OpS {
    let k = (1 + g.below(3) as usize).min(nvars);
    let pool: Vec<usize> = (0..nvars).collect();
    let vars = rand_vars(g, &pool, k);
    let ins = rand_bits(g, k);
    let diag = g.coin();
    let outs = if diag { ins.clone() } else { rand_bits(g, k) };
    OpS { bond: g.below(6) as usize, vars, ins, outs, diag, constant: g.chance(1, 3) }
}

/// one installx case (+ optionally a following set_cutoff line when the list was accepted);
/// returns (lines emitted, failed)
fn installx_case(g: &mut SplitMix64, idx: usize, nvars: usize, ps: Vec<usize>, shape: &str, st: &mut Stats) -> (usize, bool) {
    let l: Vec<(usize, OpS)> = ps.iter().map(|p| (*p, installx_small_op(g, nvars))).collect();
    let wellformed = strictly_increasing(&ps);
    *st.entry(format!("installx_{}", shape)).or_insert(0) += 1;
    let lst = if l.is_empty() { "-".to_string() } else { l.iter().map(|(p, o)| format!("{}@{}", p, o.show())).collect::<Vec<_>>().join("+") };
    let len = ps.iter().map(|p| p + 1).max().unwrap_or(0);
    let qs = pick_queries(g, len);
    let tag = format!("x{}.0.{:016x}", idx, fnv(&lst));
    let input = format!("installx {} {} {} q={}", tag, nvars, lst, list(&qs));
    let built = catch(|| FastOps::new_from_ops(nvars, l.iter().map(|(p, o)| (*p, o.to_op()))));
    drain_pool_log();
    match built {
        Err(msg) => {
            // rejected
            if wellformed {
                emit(!l.is_empty(), &input, "panic", Some(Err(format!("C11 new_from_ops panicked on a well-formed list {:?}: {}", ps, msg))));
                (1, true)
            } else {
                *st.entry("installx_rejected".into()).or_insert(0) += 1;
                emit(true, &input, "panic", Some(Ok(())));
                (1, false)
            }
        }
        Ok(mut c) => {
            let observed = catch(|| {
                let o = observe(&mut c, &qs);
                let s = scan(&c);
                (o, s)
            });
            drain_pool_log();
            if !wellformed {
                // accepted although the positions are not strictly increasing: run the getters-vs-scan oracle
                let detail = match &observed {
                    Ok((o, s)) => match oracle(o, s, nvars, Some(None), None) {
                        Err(e) => e,
                        Ok(()) => format!("get_n {} vs scan {} (container otherwise self-consistent, but the list must be rejected)", o.g_n, s.iter().filter(|x| x.is_some()).count()),
                    },
                    Err(p) => format!("getters panicked on the result: {}", p),
                };
                let out = match &observed {
                    Ok((o, _)) => format_obs(o),
                    Err(_) => "PANIC".to_string(),
                };
                emit(true, &input, &out, Some(Err(format!("C11 new_from_ops accepted positions {:?} : {}", ps, detail))));
                return (1, true);
            }
            // well-formed control: full oracle against the naive slot array
            let mut nv = Naive { nvars, nb: None, slots: vec![None; len] };
            for (p, o) in &l {
                nv.slots[*p] = Some(o.clone());
            }
            let (o, s) = match observed {
                Ok(x) => x,
                Err(p) => {
                    emit(!l.is_empty(), &input, "PANIC", Some(Err(format!("getters panicked after a well-formed install: {}", p))));
                    return (1, true);
                }
            };
            let r = oracle(&o, &s, nvars, Some(None), Some(&nv));
            *st.entry("installx_accepted".into()).or_insert(0) += 1;
            let failed = r.is_err();
            emit(!l.is_empty(), &input, &format_obs(&o), Some(r));
            if failed {
                return (1, true);
            }
            // follow-up: set_cutoff below / at / above the largest installed position (never shrinks)
            let k = match g.below(3) {
                0 => g.below(len as u64 + 1) as usize,
                1 => len,
                _ => len + 1 + g.below(5) as usize,
            };
            let m = Mut::Cutoff(k);
            nv.apply(&m, None);
            let qs2 = pick_queries(g, nv.len());
            let tag2 = format!("x{}.1.{:016x}", idx, fnv(&o.slots_str));
            let input2 = m.line(&tag2, &qs2);
            let mut cc = Some(c);
            let (obs, r2) = step_real(&mut cc, &m, &nv, &qs2);
            *st.entry(if k < len { "installx_then_cutoff_below_maxp" } else { "installx_then_cutoff_ge_len" }.to_string()).or_insert(0) += 1;
            match (obs, r2) {
                (Some(o2), r2) => {
                    let f = r2.is_err();
                    emit(nv.n_occ() > 0, &input2, &format_obs(&o2), Some(r2));
                    (2, f)
                }
                (None, r2) => {
                    emit(nv.n_occ() > 0, &input2, "PANIC", Some(r2));
                    (2, true)
                }
            }
        }
    }
}

fn installx_stream(g: &mut SplitMix64, thorough: bool, st: &mut Stats) -> (usize, usize) {
    let mut acc = (0usize, 0usize, 0usize); // (lines, failing, idx)
    fn run(acc: &mut (usize, usize, usize), g: &mut SplitMix64, nvars: usize, ps: Vec<usize>, shape: &str, st: &mut Stats) {
        let (l, f) = installx_case(g, acc.2, nvars, ps, shape, st);
        acc.2 += 1;
        acc.0 += l;
        if f {
            acc.1 += 1;
        }
    }
    // fixed shapes named in the property discussion
    run(&mut acc, g, 3, vec![3, 1], "descending", st);
    run(&mut acc, g, 3, vec![1, 1], "duplicate", st);
    run(&mut acc, g, 4, vec![0, 2, 5, 4, 7, 9], "one_inversion_inside", st);
    run(&mut acc, g, 4, vec![0, 2, 5, 7, 7], "equal_adjacent_at_end", st);
    run(&mut acc, g, 3, vec![], "empty", st);
    run(&mut acc, g, 3, vec![4], "single", st);
    run(&mut acc, g, 3, vec![0, 1, 2, 3], "sorted_dense", st);
    run(&mut acc, g, 3, vec![2, 9, 30], "sorted_gaps", st);
    let n = if thorough { 1500 } else { 150 };
    for _ in 0..n {
        if acc.1 >= 3 {
            break;
        }
        let nvars = 1 + g.below(6) as usize;
        let cap = if thorough && g.chance(1, 10) { 200 } else { 40 };
        let kmax = if g.chance(1, 4) { 30 } else { 8 };
        let k = 1 + g.below(kmax) as usize;
        // a sorted list with gaps …
        let mut ps: Vec<usize> = vec![];
        let mut p = g.below(4) as usize;
        for _ in 0..k {
            if p >= cap {
                break;
            }
            ps.push(p);
            let step = if g.chance(1, 3) { 10 } else { 3 };
            p += 1 + g.below(step) as usize;
        }
        let shape = match g.below(8) {
            0 | 1 => "sorted_random",
            2 if ps.len() >= 2 => {
                ps.reverse();
                "descending_random"
            }
            3 if ps.len() >= 2 => {
                // one inversion at a random depth (swap two neighbours)
                let i = g.below(ps.len() as u64 - 1) as usize;
                ps.swap(i, i + 1);
                "one_inversion_random"
            }
            4 if !ps.is_empty() => {
                // duplicate a random element next to itself
                let i = g.below(ps.len() as u64) as usize;
                let v = ps[i];
                ps.insert(i, v);
                "duplicate_random"
            }
            5 if !ps.is_empty() => {
                let v = *ps.last().unwrap();
                ps.push(v);
                "equal_adjacent_at_end_random"
            }
            6 if ps.len() >= 3 => {
                // a far element moved to the front / an early one to the back
                if g.coin() {
                    let v = ps.pop().unwrap();
                    ps.insert(0, v);
                } else {
                    let v = ps.remove(0);
                    ps.push(v);
                }
                "rotated_random"
            }
            7 if ps.len() >= 2 => {
                // duplicate of an EARLIER position deep inside (non-adjacent)
                let i = g.below(ps.len() as u64 - 1) as usize;
                let v = ps[i];
                ps.push(v);
                "late_duplicate_random"
            }
            _ => "sorted_random",
        };
        run(&mut acc, g, nvars, ps, shape, st);
    }
    (acc.0, acc.1)
}

fn main() {
    quiet_panics();
    let a = args();
    let mut g = SplitMix64::new(a.seed ^ 0xC11_C11);
    let mut st: Stats = BTreeMap::new();
    let target = if a.thorough { 70_000 } else { 8_000 };
    let mut total = 0usize;
    let mut hidx = 0usize;
    let mut failing = 0usize;
    let mut maxlen = 0usize;
    while total < target && failing < 3 {
        let h = pick_hist(&mut g, a.thorough);
        *st.entry(format!("nvars_{}", h.nvars)).or_insert(0) += 1;
        *st.entry(format!("style_{:?}", h.style).to_lowercase()).or_insert(0) += 1;
        if h.highvars {
            *st.entry("hist_highvars".into()).or_insert(0) += 1;
        }
        *st.entry(if h.nb.is_some() { "hist_with_bond_counters".to_string() } else { "hist_without_bond_counters".to_string() }).or_insert(0) += 1;
        let (lines, failed) = run_history(&mut g, hidx, &h, &mut st);
        total += lines;
        maxlen = maxlen.max(lines);
        if failed {
            failing += 1;
        }
        hidx += 1;
    }
    if failing < 3 {
        let (l, f) = installx_stream(&mut g, a.thorough, &mut st);
        total += l;
        failing += f;
    }
    probes();
    for (k, v) in &st {
        stat(k, v);
    }
    stat("histories", hidx);
    stat("max_history_len", maxlen);
    stat("failing_histories", failing);
    stat("case_lines", total);
}
