//! bigscale — LARGE-SCALE REGIME harness (model-free, like `apicov` / `kern`).
//!
//! Every other harness replays tiny systems against the exact Lean model, so a change that is bit-for-bit invisible below
//! 65536 bonds / operators / slots / loop vertices is invisible to them. This bin builds a FEW large systems through the
//! public API, runs them with RELEASE semantics (profile `fast`: no debug assertions, wrapping arithmetic) and evaluates
//! oracles taken from the property statements after every public update call. The model column is the constant `ok`; only
//! the oracle column decides (`checks/big_scale.py`, evidence mode `large-scale-regime`). Every failure message starts with
//! the tag of the property whose statement supplied the oracle (`C06 …`), a library panic carries no tag.
//!
//! Modes (`bigscale <mode> --seed N --tier quick|thorough`):
//!   manybonds   > 65536 bonds: fully connected 400-spin ferromagnet (80200 bonds) and a 130x130 lattice with h != 0 (67600)
//!   manyops     > 65535 operators on ONE bond (single AF bond, beta = 33060..35000), replica exchange between such replicas,
//!               and a beta ladder whose |n_b - n_a| exceeds 170 at beta = 64
//!   bigcluster  one cluster with > 33000 operators: synthetic two-world-line ladders through `new_from_ops`, 32x32 ferromagnet
//!   longstring  operator list with > 65536 slots (ring of 256 spins, beta = 100): diagonal / cluster / RVB interleavings
//!               under the pool hook log
//!   longloops   directed loops on a periodic XX chain (L = 256, beta = 64, n ~ 9000), several loops per diagonal sweep
//!   densegraph  fully connected +-J model on ~155 spins under RVB: one RVB region spans > 128 world lines
//!   manyvars    generic sampler with > 65536 variables (six interactions) and with > 65536 interactions (TFIM chain term by term)
//!   longrun     measuring run whose sum of n exceeds 2^24; tempering autocorrelation helper over > 65536 time steps
//!   classicalring  classical worm moves on a +-1 ring of > 65536 sites
//!   hubstar     central-spin star with > 72000 leaves under RVB: a vertex of degree > 65535 (thorough tier of `all` only)
//!   all         everything above (scenarios run on threads; output order and content are deterministic in --seed)
//! Witness mode (never part of `all`, not wired): `clusterquad` — wall time of one cluster update on N almost decoupled spins
//! grows x4 per doubling of N (re-scan of the boundary table per component), see `design_notes/BigScale.md`.

#![allow(clippy::too_many_arguments, clippy::type_complexity)]

use qmc::sse::fast_ops::*;
use qmc::sse::*;
use qmc::util::allocator::verif_log;
use rand::{Rng, RngCore};
#[allow(unused_imports)]
use std::cell::RefCell;
use smallvec::{smallvec, SmallVec};
use std::cell::Cell;
use std::collections::{BTreeMap, HashMap};
use std::time::Instant;
use vh::*;

type G = QmcIsingGraph<SplitMix64, FastOps>;
type TC = TemperingContainer<SplitMix64, G>;
type SV = SmallVec<[usize; 2]>;
type SB = SmallVec<[bool; 2]>;

// ------------------------------------------------------------------------------------------------------------------
// output of one scenario (scenarios run on threads; main prints in a fixed order)
// ------------------------------------------------------------------------------------------------------------------
#[derive(Default)]
struct Out {
    cases: Vec<(bool, String, Result<(), String>)>,
    stats: BTreeMap<String, u64>,
}
impl Out {
    fn case(&mut self, nt: bool, input: String, r: Result<(), String>) {
        self.cases.push((nt, input.replace('|', "/"), r));
    }
    fn add(&mut self, k: &str, v: u64) {
        *self.stats.entry(k.to_string()).or_insert(0) += v;
    }
    fn max(&mut self, k: &str, v: u64) {
        let e = self.stats.entry(k.to_string()).or_insert(0);
        if v > *e {
            *e = v;
        }
    }
}

/// collects the failed sub-oracles of one case (first four)
struct Chk {
    errs: Vec<String>,
}
impl Chk {
    fn new() -> Self {
        Chk { errs: vec![] }
    }
    fn ck(&mut self, cond: bool, msg: impl FnOnce() -> String) {
        if !cond && self.errs.len() < 4 {
            self.errs.push(msg());
        }
    }
    fn res(&mut self, r: Result<(), String>) {
        if let Err(e) = r {
            if self.errs.len() < 4 {
                self.errs.push(e);
            }
        }
    }
    /// run a library call; a panic is an oracle failure carrying the panic text (no property tag)
    fn call<T>(&mut self, what: &str, f: impl FnOnce() -> T) -> Option<T> {
        match catch(f) {
            Ok(t) => Some(t),
            Err(e) => {
                self.errs.push(format!("{} panicked: {}", what, clip(&e)));
                None
            }
        }
    }
    fn failed(&self) -> bool {
        !self.errs.is_empty()
    }
    fn done(self) -> Result<(), String> {
        if self.errs.is_empty() {
            Ok(())
        } else {
            Err(self.errs.join("; "))
        }
    }
}
fn clip(s: &str) -> String {
    if s.len() > 240 {
        let mut k = 240;
        while !s.is_char_boundary(k) {
            k -= 1;
        }
        format!("{}…", &s[..k])
    } else {
        s.to_string()
    }
}

// ------------------------------------------------------------------------------------------------------------------
// scan of a container (definition side of every oracle): `get_pth` over all slots, nothing else
// ------------------------------------------------------------------------------------------------------------------
#[derive(Clone, Debug, PartialEq)]
struct SOp {
    p: usize,
    bond: usize,
    vars: SV,
    ins: SB,
    outs: SB,
    diag: bool,
    constant: bool,
}
struct Scan {
    cutoff: usize,
    ops: Vec<SOp>,
}
fn scan<M: OpContainer>(m: &M) -> Scan {
    let cutoff = m.get_cutoff();
    let mut ops = Vec::with_capacity(m.get_n().min(1 << 22));
    for p in 0..cutoff {
        if let Some(op) = m.get_pth(p) {
            ops.push(SOp {
                p,
                bond: op.get_bond(),
                vars: op.get_vars().iter().cloned().collect(),
                ins: op.get_inputs().iter().cloned().collect(),
                outs: op.get_outputs().iter().cloned().collect(),
                diag: op.is_diagonal(),
                constant: op.is_constant(),
            });
        }
    }
    Scan { cutoff, ops }
}
fn bits_s(b: &[bool]) -> String {
    if b.len() > 40 {
        format!("{}…({} spins)", bits(&b[..40]), b.len())
    } else {
        bits(b)
    }
}

/// C06: the reported state propagated through the stored operators meets every operator with its recorded inputs and
/// returns to the start; `OpContainer::verify` agrees
fn check_worldlines<M: OpContainer>(m: &M, sc: &Scan, state: &[bool]) -> Result<(), String> {
    if state.len() != m.get_nvars() {
        return Err(format!("C06 state has {} spins, container {} variables", state.len(), m.get_nvars()));
    }
    let mut st = state.to_vec();
    for op in sc.ops.iter() {
        if op.ins.len() != op.vars.len() || op.outs.len() != op.vars.len() {
            return Err(format!("C07 p={} wrong number of values", op.p));
        }
        for (k, v) in op.vars.iter().enumerate() {
            if *v >= st.len() {
                return Err(format!("C07 p={} variable {} out of range", op.p, v));
            }
            if st[*v] != op.ins[k] {
                return Err(format!(
                    "C06 op at p={} (bond {}, vars {:?}) records input {} for variable {} but the propagated state has {}",
                    op.p, op.bond, op.vars, op.ins[k] as u8, v, st[*v] as u8
                ));
            }
        }
        for (k, v) in op.vars.iter().enumerate() {
            st[*v] = op.outs[k];
        }
    }
    if st != state {
        let v = (0..st.len()).find(|v| st[*v] != state[*v]).unwrap();
        return Err(format!("C06 world lines are not periodic: variable {} ends in {} but starts in {}", v, st[v] as u8, state[v] as u8));
    }
    if !m.verify(state) {
        return Err("C06 OpContainer::verify(state) is false on a consistent configuration".into());
    }
    Ok(())
}

/// The Hamiltonian as the oracle sees it: written down from the model parameters the harness chose (never read back from the
/// operators), cross-checked against the library's public matrix element function where one exists.
trait HamSpec {
    fn nbonds(&self) -> usize;
    /// variables and constant flag of bond b
    fn edge(&self, b: usize) -> (SV, bool);
    fn weight(&self, b: usize, ins: &[bool], outs: &[bool]) -> f64;
    /// the bond a stored operator must sit on, from its SHAPE only (variables + constant flag), independent of `get_bond`
    fn bond_by_shape(&self, op: &SOp) -> Option<usize>;
}

/// C07 (legality) + C12 (n <= cutoff) + C11 get_n
fn check_legal<M: OpContainer>(m: &M, sc: &Scan, hs: &dyn HamSpec) -> Result<(), String> {
    let nb = hs.nbonds();
    for op in sc.ops.iter() {
        if op.bond >= nb {
            return Err(format!("C07 p={} bond {} out of range {}", op.p, op.bond, nb));
        }
        let (vars, c) = hs.edge(op.bond);
        if vars != op.vars {
            return Err(format!(
                "C07 p={} stored bond {} acts on {:?} but the operator acts on {:?} (by shape it belongs to bond {:?})",
                op.p,
                op.bond,
                vars,
                op.vars,
                hs.bond_by_shape(op)
            ));
        }
        if c != op.constant {
            return Err(format!("C07 p={} bond {} constant flag {} but the bond says {}", op.p, op.bond, op.constant, c));
        }
        if op.diag != (op.ins == op.outs) {
            return Err(format!("C07 p={} tag diagonal={} but ins {} outs {}", op.p, op.diag, bits(&op.ins), bits(&op.outs)));
        }
        let w = hs.weight(op.bond, &op.ins, &op.outs);
        if !(w > 0.0) {
            return Err(format!("C07 p={} bond {} {}->{} has matrix element {}", op.p, op.bond, bits(&op.ins), bits(&op.outs), w));
        }
    }
    if m.get_n() != sc.ops.len() {
        return Err(format!("C11 get_n {} but {} occupied slots", m.get_n(), sc.ops.len()));
    }
    if sc.ops.len() > sc.cutoff {
        return Err("C12 more ops than slots".into());
    }
    Ok(())
}

/// C11 in linear time: every navigation getter of the container equals what the scan of the slots gives.
/// `count_all`: compare `get_count(b)` for every bond (needs bond counters, O(1) per call) or for a sample (`sample` bonds).
fn check_nav<M: LoopUpdater>(m: &M, sc: &Scan, nbonds: usize, count_bonds: &[usize], r: &mut SplitMix64) -> Result<(), String> {
    let n = sc.ops.len();
    let nvars = m.get_nvars();
    if m.get_n() != n {
        return Err(format!("C11 get_n {} vs scan {}", m.get_n(), n));
    }
    let (f, l) = (sc.ops.first().map(|o| o.p), sc.ops.last().map(|o| o.p));
    if m.get_first_p() != f || m.get_last_p() != l {
        return Err(format!("C11 first/last p {:?}/{:?} vs scan {:?}/{:?}", m.get_first_p(), m.get_last_p(), f, l));
    }
    // per-bond counts by the stored bond index
    let mut counts: HashMap<usize, usize> = HashMap::new();
    for op in sc.ops.iter() {
        *counts.entry(op.bond).or_insert(0) += 1;
    }
    for b in count_bonds.iter() {
        let c = counts.get(b).cloned().unwrap_or(0);
        let got = m.get_count(*b);
        if got != c {
            return Err(format!("C11 get_count({}) = {} vs scan {}", b, got, c));
        }
    }
    let _ = nbonds;
    // per-variable predecessor / successor tables from two passes over the scan
    let mut prevs: Vec<SmallVec<[Option<PRel>; 2]>> = Vec::with_capacity(n);
    let mut nexts: Vec<SmallVec<[Option<PRel>; 2]>> = vec![SmallVec::new(); n];
    let mut last: Vec<Option<PRel>> = vec![None; nvars];
    let mut first: Vec<Option<PRel>> = vec![None; nvars];
    for op in sc.ops.iter() {
        let mut pv = SmallVec::new();
        for (relv, v) in op.vars.iter().enumerate() {
            if *v >= nvars {
                return Err(format!("C07 p={} variable {} out of range", op.p, v));
            }
            pv.push(last[*v]);
            let here = Some(PRel { p: op.p, relv });
            if first[*v].is_none() {
                first[*v] = here;
            }
            last[*v] = here;
        }
        prevs.push(pv);
    }
    let mut nxt: Vec<Option<PRel>> = vec![None; nvars];
    for (i, op) in sc.ops.iter().enumerate().rev() {
        let mut nv: SmallVec<[Option<PRel>; 2]> = SmallVec::new();
        for (relv, v) in op.vars.iter().enumerate() {
            nv.push(nxt[*v]);
            nxt[*v] = Some(PRel { p: op.p, relv });
        }
        nexts[i] = nv;
    }
    for v in 0..nvars {
        if m.get_first_p_for_var(v) != first[v] || m.get_last_p_for_var(v) != last[v] {
            return Err(format!(
                "C11 var {} first/last {:?}/{:?} vs scan {:?}/{:?}",
                v,
                m.get_first_p_for_var(v),
                m.get_last_p_for_var(v),
                first[v],
                last[v]
            ));
        }
        if m.does_var_have_ops(v) != first[v].is_some() {
            return Err(format!("C11 does_var_have_ops({}) = {} vs scan {}", v, m.does_var_have_ops(v), first[v].is_some()));
        }
    }
    for (i, op) in sc.ops.iter().enumerate() {
        let node = match m.get_node_ref(op.p) {
            Some(x) => x,
            None => return Err(format!("C11 get_node_ref({}) is None on an occupied slot", op.p)),
        };
        let pp = if i > 0 { Some(sc.ops[i - 1].p) } else { None };
        let np = sc.ops.get(i + 1).map(|o| o.p);
        if m.get_previous_p(node) != pp || m.get_next_p(node) != np {
            return Err(format!("C11 p={} prev/next {:?}/{:?} vs scan {:?}/{:?}", op.p, m.get_previous_p(node), m.get_next_p(node), pp, np));
        }
        for (relv, v) in op.vars.iter().enumerate() {
            let (pv, nv) = (prevs[i][relv], nexts[i][relv]);
            let (gp, gn) = (m.get_previous_p_for_rel_var(relv, node), m.get_next_p_for_rel_var(relv, node));
            if gp != pv || gn != nv {
                return Err(format!("C11 p={} var {} prev/next by rel var {:?}/{:?} vs scan {:?}/{:?}", op.p, v, gp, gn, pv, nv));
            }
            if m.get_previous_p_for_var(*v, node) != Ok(pv) || m.get_next_p_for_var(*v, node) != Ok(nv) {
                return Err(format!("C11 p={} var {} prev/next by var vs scan {:?}/{:?}", op.p, v, pv, nv));
            }
        }
        let other = (op.vars[0] + 1 + (i % 3)) % nvars;
        if !op.vars.contains(&other) && (m.get_previous_p_for_var(other, node).is_ok() || m.get_next_p_for_var(other, node).is_ok()) {
            return Err(format!("C11 p={} by-variable navigation answers for variable {} that is not on the op", op.p, other));
        }
    }
    // get_nth_p walks k successors: a few k only
    if n > 0 {
        let mut ks = vec![0, n - 1, n / 2, n / 3];
        for _ in 0..4 {
            ks.push(r.below(n as u64) as usize);
        }
        for k in ks {
            if m.get_nth_p(k) != sc.ops[k].p {
                return Err(format!("C11 get_nth_p({}) = {} vs scan {}", k, m.get_nth_p(k), sc.ops[k].p));
            }
        }
    }
    let mut it = sc.ops.iter().peekable();
    for p in 0..sc.cutoff {
        if it.peek().map(|o| o.p) == Some(p) {
            it.next();
        } else if m.get_node_ref(p).is_some() {
            return Err(format!("C11 get_node_ref({}) is Some on an empty slot", p));
        }
    }
    Ok(())
}

/// C11 counters against the SHAPE of the stored operators (independent of `get_bond`): for every bond b of the model,
/// `get_count(b)` = number of stored operators acting on exactly b's variables with b's constant flag
fn check_counts_by_shape(sc: &Scan, hs: &dyn HamSpec, get_count: &dyn Fn(usize) -> usize, what: &str) -> Result<(), String> {
    let nb = hs.nbonds();
    let mut counts = vec![0usize; nb];
    for op in sc.ops.iter() {
        match hs.bond_by_shape(op) {
            Some(b) if b < nb => counts[b] += 1,
            _ => return Err(format!("C07 p={} operator on {:?} (constant {}) matches no bond of the model", op.p, op.vars, op.constant)),
        }
    }
    for (b, c) in counts.iter().enumerate() {
        let got = get_count(b);
        if got != *c {
            return Err(format!("C11 {}({}) = {} but {} stored operators act on that bond's variables {:?}", what, b, got, c, hs.edge(b).0));
        }
    }
    Ok(())
}

// Zobrist hashing of spin states: the expected side is updated per operator, the fold side hashes the state it is given
fn zobrist(nvars: usize) -> Vec<u64> {
    let mut z = SplitMix64::new(0x5EED_0F_20B2157);
    (0..nvars).map(|_| z.next() | 1).collect()
}
fn zhash(z: &[u64], s: &[bool]) -> u64 {
    s.iter().zip(z.iter()).fold(0u64, |h, (b, k)| if *b { h ^ *k } else { h })
}
/// C06 (second clause): the states visited by the imaginary-time fold are exactly the propagated states, slot by slot
fn check_fold(sc: &Scan, state: &[bool], fold: impl FnOnce(&dyn Fn(Vec<u64>, &[bool]) -> Vec<u64>) -> Vec<u64>) -> Result<(), String> {
    let z = zobrist(state.len());
    let mut h = zhash(&z, state);
    let mut expected = Vec::with_capacity(sc.cutoff);
    let mut it = sc.ops.iter().peekable();
    let mut st = state.to_vec();
    for p in 0..sc.cutoff {
        expected.push(h);
        if it.peek().map(|o| o.p) == Some(p) {
            let op = it.next().unwrap();
            for (k, v) in op.vars.iter().enumerate() {
                if st[*v] != op.outs[k] {
                    st[*v] = op.outs[k];
                    h ^= z[*v];
                }
            }
        }
    }
    let zz = z.clone();
    let f = move |mut acc: Vec<u64>, s: &[bool]| {
        acc.push(zhash(&zz, s));
        acc
    };
    let got = catch(|| fold(&f)).map_err(|e| format!("C06 imaginary_time_fold panicked: {}", clip(&e)))?;
    if got.len() != expected.len() {
        return Err(format!("C06/C17 imaginary_time_fold visits {} slots, the container has {}", got.len(), expected.len()));
    }
    if let Some(p) = (0..got.len()).find(|p| got[*p] != expected[*p]) {
        return Err(format!("C06/C17 imaginary_time_fold state entering slot {} differs from the propagated state", p));
    }
    Ok(())
}

// ------------------------------------------------------------------------------------------------------------------
// pool oracle (C18): balance of one call from the hook log
// ------------------------------------------------------------------------------------------------------------------
fn pool_begin() {
    let _ = verif_log::take();
}
/// returns the number of pool events of the call
fn pool_end(what: &str) -> Result<usize, String> {
    let log = verif_log::take();
    let mut bal: BTreeMap<&'static str, i64> = BTreeMap::new();
    for (ty, d, clean, _left) in log.iter() {
        match d {
            1 => *bal.entry(ty).or_insert(0) += 1,
            -1 => {
                *bal.entry(ty).or_insert(0) -= 1;
                if !*clean {
                    return Err(format!("C18 {}: a returned {} is not empty after reset (stale data goes back into the pool)", what, ty));
                }
            }
            _ => return Err(format!("C18 {}: pool exhausted for {}", what, ty)),
        }
    }
    for (ty, b) in bal.iter() {
        if *b != 0 {
            return Err(format!("C18 {}: {} gets - returns = {}", what, ty, b));
        }
    }
    Ok(log.len())
}

// ------------------------------------------------------------------------------------------------------------------
// C09: cluster decomposition by union-find over world-line segments, straight from the property statement
// ------------------------------------------------------------------------------------------------------------------
struct Uf(Vec<u32>);
impl Uf {
    fn find(&mut self, mut x: u32) -> u32 {
        while self.0[x as usize] != x {
            let p = self.0[x as usize];
            self.0[x as usize] = self.0[p as usize];
            x = p;
        }
        x
    }
    fn union(&mut self, a: u32, b: u32) {
        let (a, b) = (self.find(a), self.find(b));
        if a != b {
            self.0[a as usize] = b;
        }
    }
}
/// segment = the piece of a world line between two consecutive operators on a variable (cyclically); segment id of the piece
/// LEAVING operator i on its relv-th variable = off[i] + relv. Clusters = components under "all legs of a non-edge operator
/// belong together"; a constant single-site operator joins nothing.
struct Segments {
    off: Vec<u32>,
    /// segment entering operator i on relv
    inseg: Vec<SmallVec<[u32; 2]>>,
    total: usize,
}
fn segments(sc: &Scan, nvars: usize) -> Segments {
    let mut off = Vec::with_capacity(sc.ops.len());
    let mut t = 0u32;
    for op in sc.ops.iter() {
        off.push(t);
        t += op.vars.len() as u32;
    }
    let mut last: Vec<Option<u32>> = vec![None; nvars];
    // last op on every variable first (cyclic predecessor of the first op)
    for (i, op) in sc.ops.iter().enumerate() {
        for (relv, v) in op.vars.iter().enumerate() {
            last[*v] = Some(off[i] + relv as u32);
        }
    }
    let mut inseg = Vec::with_capacity(sc.ops.len());
    for (i, op) in sc.ops.iter().enumerate() {
        let mut s = SmallVec::new();
        for (relv, v) in op.vars.iter().enumerate() {
            s.push(last[*v].unwrap());
            last[*v] = Some(off[i] + relv as u32);
        }
        inseg.push(s);
    }
    Segments { off, inseg, total: t as usize }
}
fn is_edge_op(op: &SOp) -> bool {
    op.constant && op.vars.len() == 1
}
struct ClusterView {
    seg: Segments,
    comp: Vec<u32>,
    ncomp: usize,
    any_edge: bool,
}
fn clusters(sc: &Scan, nvars: usize) -> ClusterView {
    let seg = segments(sc, nvars);
    let mut uf = Uf((0..seg.total as u32).collect());
    let mut any_edge = false;
    for (i, op) in sc.ops.iter().enumerate() {
        if is_edge_op(op) {
            any_edge = true;
            continue;
        }
        let a = seg.off[i];
        for relv in 0..op.vars.len() {
            uf.union(a, seg.off[i] + relv as u32);
            uf.union(a, seg.inseg[i][relv]);
        }
    }
    let mut comp = vec![0u32; seg.total];
    let mut roots = 0usize;
    for s in 0..seg.total as u32 {
        let rt = uf.find(s);
        comp[s as usize] = rt;
        if rt == s {
            roots += 1;
        }
    }
    ClusterView { seg, comp, ncomp: roots, any_edge }
}
/// C09 after one cluster update: `before` / `after` scans, the count the library returned, `frozen(op)` = symmetry-breaking
/// operators whose clusters must never flip, `lnw(op)` = log matrix element (own formula)
fn check_cluster_step(
    before: &Scan,
    after: &Scan,
    nvars: usize,
    returned: Option<usize>,
    frozen: &dyn Fn(&SOp) -> bool,
    lnw: &dyn Fn(&SOp) -> f64,
    out: &mut Out,
    key: &str,
) -> Result<(), String> {
    if before.ops.len() != after.ops.len() {
        return Err(format!("C09 cluster update changed the number of operators {} -> {}", before.ops.len(), after.ops.len()));
    }
    for (a, b) in before.ops.iter().zip(after.ops.iter()) {
        if (a.p, a.bond, &a.vars, a.constant) != (b.p, b.bond, &b.vars, b.constant) {
            return Err(format!("C09 cluster update moved / relabelled the operator at p={} (bond {} -> p={} bond {})", a.p, a.bond, b.p, b.bond));
        }
    }
    let cv = clusters(before, nvars);
    let expect = if before.ops.is_empty() {
        0
    } else if cv.any_edge {
        cv.ncomp
    } else {
        1
    };
    out.max(&format!("{}.max_clusters", key), expect as u64);
    // size of the largest cluster in operators (legs / 2 is close enough: count segments)
    {
        let mut sz: HashMap<u32, u32> = HashMap::new();
        for c in cv.comp.iter() {
            *sz.entry(*c).or_insert(0) += 1;
        }
        out.max(&format!("{}.max_cluster_segments", key), sz.values().cloned().max().unwrap_or(0) as u64);
    }
    if let Some(rn) = returned {
        if rn != expect {
            return Err(format!(
                "C09 the update reports {} clusters, the decomposition of the string (legs of non-constant operators joined, constant single-site operators cut) has {}",
                rn, expect
            ));
        }
    }
    // flips per segment
    let mut flipped: HashMap<u32, (bool, usize)> = HashMap::new();
    for (i, (a, b)) in before.ops.iter().zip(after.ops.iter()).enumerate() {
        for relv in 0..a.vars.len() {
            for (sg, fl) in [(cv.seg.off[i] + relv as u32, a.outs[relv] != b.outs[relv]), (cv.seg.inseg[i][relv], a.ins[relv] != b.ins[relv])] {
                let c = if cv.any_edge { cv.comp[sg as usize] } else { 0 };
                match flipped.get(&c) {
                    None => {
                        flipped.insert(c, (fl, a.p));
                    }
                    Some((f0, p0)) => {
                        if *f0 != fl {
                            return Err(format!(
                                "C09 one cluster was flipped only in part: leg at p={} {} but leg at p={} {}",
                                p0,
                                if *f0 { "flipped" } else { "kept" },
                                a.p,
                                if fl { "flipped" } else { "kept" }
                            ));
                        }
                    }
                }
            }
        }
    }
    for (i, a) in before.ops.iter().enumerate() {
        if frozen(a) {
            let c = if cv.any_edge { cv.comp[cv.seg.off[i] as usize] } else { 0 };
            if flipped.get(&c).map(|x| x.0).unwrap_or(false) {
                return Err(format!("C09 a cluster containing the symmetry-breaking operator at p={} (bond {}) was flipped", a.p, a.bond));
            }
        }
    }
    let nfl = flipped.values().filter(|x| x.0).count();
    out.add(&format!("{}.clusters_flipped", key), nfl as u64);
    out.add(&format!("{}.clusters_seen", key), flipped.len() as u64);
    let (mut wa, mut wb) = (0.0f64, 0.0f64);
    for (a, b) in before.ops.iter().zip(after.ops.iter()) {
        let (x, y) = (lnw(a), lnw(b));
        if x != y && !(x.is_finite() && y.is_finite() && (x - y).abs() < 1e-12) {
            return Err(format!("C09 the matrix element of the operator at p={} (bond {}) changed: ln w {} -> {} ({}->{} became {}->{})", a.p, a.bond, x, y, bits(&a.ins), bits(&a.outs), bits(&b.ins), bits(&b.outs)));
        }
        wa += x;
        wb += y;
    }
    if !(wa.is_finite() && wb.is_finite()) || (wa - wb).abs() > 1e-9 * wa.abs().max(1.0) {
        return Err(format!("C09 total log weight changed {} -> {}", wa, wb));
    }
    Ok(())
}

// ------------------------------------------------------------------------------------------------------------------
// Ising models as data + the Hamiltonian the property statements talk about
// ------------------------------------------------------------------------------------------------------------------
#[derive(Clone)]
struct ISpec {
    name: String,
    nvars: usize,
    edges: Vec<((usize, usize), f64)>,
    gamma: f64,
    h: f64,
    by_pair: HashMap<(usize, usize), usize>,
}
impl ISpec {
    fn new(name: &str, nvars: usize, edges: Vec<((usize, usize), f64)>, gamma: f64, h: f64) -> Self {
        let by_pair = edges.iter().enumerate().map(|(b, ((x, y), _))| ((*x, *y), b)).collect();
        ISpec { name: name.to_string(), nvars, edges, gamma, h, by_pair }
    }
    fn ne(&self) -> usize {
        self.edges.len()
    }
    fn build(&self, cutoff: usize, state: Vec<bool>, seed: u64) -> G {
        G::new_with_rng(self.edges.clone(), self.gamma, self.h, cutoff, SplitMix64::new(seed), Some(state))
    }
    fn token(&self) -> String {
        format!("{}[n={},edges={},G={},h={}]", self.name, self.nvars, self.edges.len(), self.gamma, self.h)
    }
    /// log matrix element by SHAPE (2 variables: coupling; 1 variable constant: transverse; 1 variable not constant: field)
    fn lnw_shape(&self, op: &SOp) -> f64 {
        match self.bond_by_shape(op) {
            Some(b) => self.weight(b, &op.ins, &op.outs).ln(),
            None => f64::NAN,
        }
    }
}
impl HamSpec for ISpec {
    fn nbonds(&self) -> usize {
        self.ne() + self.nvars + if self.h != 0.0 { self.nvars } else { 0 }
    }
    fn edge(&self, b: usize) -> (SV, bool) {
        let ne = self.ne();
        if b < ne {
            let (x, y) = self.edges[b].0;
            (smallvec![x, y], false)
        } else if b < ne + self.nvars {
            (smallvec![b - ne], true)
        } else {
            (smallvec![b - ne - self.nvars], false)
        }
    }
    /// -H_b + the smallest shift making the diagonal non-negative: 2|J| on the favoured alignment, Gamma for every
    /// single-site in/out pair, 2|h| on the spin value aligned with the field
    fn weight(&self, b: usize, ins: &[bool], outs: &[bool]) -> f64 {
        let ne = self.ne();
        if b < ne {
            if ins != outs || ins.len() != 2 {
                return 0.0;
            }
            let j = self.edges[b].1;
            let aligned = ins[0] == ins[1];
            if (j < 0.0) == aligned {
                2.0 * j.abs()
            } else {
                0.0
            }
        } else if b < ne + self.nvars {
            if ins.len() != 1 {
                return 0.0;
            }
            self.gamma
        } else {
            if ins != outs || ins.len() != 1 {
                return 0.0;
            }
            if ins[0] == (self.h > 0.0) {
                2.0 * self.h.abs()
            } else {
                0.0
            }
        }
    }
    fn bond_by_shape(&self, op: &SOp) -> Option<usize> {
        match (op.vars.len(), op.constant) {
            (2, false) => self.by_pair.get(&(op.vars[0], op.vars[1])).cloned(),
            (1, true) => Some(self.ne() + op.vars[0]),
            (1, false) if self.h != 0.0 => Some(self.ne() + self.nvars + op.vars[0]),
            _ => None,
        }
    }
}

/// which oracles to evaluate after a call (scans are linear; the fold costs nvars * cutoff)
#[derive(Clone, Copy)]
struct Lvl {
    nav: bool,
    fold: bool,
    shape_counts: bool,
    lib_weight: bool,
}
const FULL: Lvl = Lvl { nav: true, fold: true, shape_counts: true, lib_weight: true };
const NOFOLD: Lvl = Lvl { nav: true, fold: false, shape_counts: true, lib_weight: true };
const LIGHT: Lvl = Lvl { nav: false, fold: false, shape_counts: false, lib_weight: false };

/// C06 C07 C11 C12 on an Ising sampler after a public call; returns the scan for the caller's own oracles
fn check_ising(g: &G, spec: &ISpec, lvl: Lvl, c: &mut Chk, r: &mut SplitMix64) -> Scan {
    let m = g.get_manager_ref();
    let sc = scan(m);
    let st = g.state_ref();
    c.res(check_worldlines(m, &sc, st));
    let legal = check_legal(m, &sc, spec);
    let legal_ok = legal.is_ok();
    c.res(legal);
    if lvl.lib_weight && legal_ok {
        // the library's own public matrix element function agrees with the statement's Hamiltonian on every stored operator
        let info = g.make_haminfo();
        for op in sc.ops.iter() {
            let w = G::hamiltonian(&info, &op.vars, op.bond, &op.ins, &op.outs);
            let e = spec.weight(op.bond, &op.ins, &op.outs);
            if w != e {
                c.ck(false, || format!("C01 hamiltonian(bond {}, {}->{}) = {} expected {}", op.bond, bits(&op.ins), bits(&op.outs), w, e));
                break;
            }
        }
    }
    if lvl.nav {
        let nb = spec.nbonds();
        let all: Vec<usize> = (0..nb + 2).chain([65535, 65536, 65537, 131072, 1 << 20]).collect();
        c.res(check_nav(m, &sc, nb, &all, r));
        if QmcStepper::get_n(g) != sc.ops.len() || g.get_n() != sc.ops.len() {
            c.ck(false, || format!("C11 sampler get_n {} differs from the scan {}", g.get_n(), sc.ops.len()));
        }
    }
    if lvl.shape_counts {
        c.res(check_counts_by_shape(&sc, spec, &|b| g.get_bond_count(b), "get_bond_count"));
    }
    if lvl.fold {
        c.res(check_fold(&sc, st, |f| g.imaginary_time_fold(|a, s| f(a, s), Vec::with_capacity(sc.cutoff))));
    }
    if !catch(|| g.verify()).unwrap_or(false) && !c.failed() {
        c.ck(false, || "C06 Verify::verify() is false on a consistent sampler".into());
    }
    let n = sc.ops.len();
    if g.get_cutoff() < n {
        c.ck(false, || format!("C12 cutoff {} < n {}", g.get_cutoff(), n));
    }
    // (the container's slot array may lag behind the sampler's cutoff: it is grown by the next sweep)
    if let Some(last) = sc.ops.last() {
        if last.p >= g.get_cutoff() {
            c.ck(false, || format!("C12 op at p={} beyond the sampler cutoff {} (no diagonal sweep will ever reach it)", last.p, g.get_cutoff()));
        }
    }
    sc
}
fn cutoff_rule(c: &mut Chk, before: usize, g: &G) {
    let (cut, n) = (g.get_cutoff(), g.get_n());
    c.ck(cut >= before, || format!("C12 the cutoff decreased from {} to {}", before, cut));
    c.ck(cut >= n + n / 2 + 1, || format!("C12 after the step cutoff {} < n + n/2 + 1 with n = {}", cut, n));
}
fn ctx(g: &G) -> String {
    format!("n={} cutoff={}", g.get_n(), g.get_cutoff())
}

/// one guarded, pool-logged cluster step of an Ising sampler followed by C09 + the bundle
fn cluster_step_checked(g: &mut G, spec: &ISpec, before: &Scan, lvl: Lvl, c: &mut Chk, r: &mut SplitMix64, out: &mut Out, key: &str) -> Option<Scan> {
    pool_begin();
    let ret = c.call("single_cluster_step", || g.single_cluster_step())?;
    c.res(pool_end("single_cluster_step").map(|_| ()));
    let after = check_ising(g, spec, lvl, c, r);
    let frozen = |op: &SOp| op.vars.len() == 1 && !op.constant;
    c.res(check_cluster_step(before, &after, spec.nvars, Some(ret), &frozen, &|op| spec.lnw_shape(op), out, key));
    // no longitudinal operator may sit in its zero-weight state (classified by shape only)
    if spec.h != 0.0 {
        let (mut nlong, mut bad) = (0usize, None);
        for op in after.ops.iter() {
            if frozen(op) {
                nlong += 1;
                if !(op.ins[0] == (spec.h > 0.0) && op.outs[0] == (spec.h > 0.0)) && bad.is_none() {
                    bad = Some(op.p);
                }
            }
        }
        out.add(&format!("{}.longitudinal_ops_checked", key), nlong as u64);
        if let Some(p) = bad {
            c.ck(false, || format!("C09 the longitudinal-field operator at p={} was flipped into its zero-weight state (cluster flip does not keep the weight > 0)", p));
        }
    }
    Some(after)
}
fn diag_step_checked(g: &mut G, spec: &ISpec, beta: f64, lvl: Lvl, c: &mut Chk, r: &mut SplitMix64) -> Option<Scan> {
    let cut0 = g.get_cutoff();
    pool_begin();
    c.call("single_diagonal_step", || g.single_diagonal_step(beta))?;
    c.res(pool_end("single_diagonal_step").map(|_| ()));
    let sc = check_ising(g, spec, lvl, c, r);
    cutoff_rule(c, cut0, g);
    Some(sc)
}

// ------------------------------------------------------------------------------------------------------------------
// manybonds: more than 65536 bonds
// ------------------------------------------------------------------------------------------------------------------
fn gen_state(r: &mut SplitMix64, n: usize) -> Vec<bool> {
    match r.below(3) {
        0 => vec![false; n],
        1 => vec![true; n],
        _ => (0..n).map(|_| r.coin()).collect(),
    }
}
/// fully connected ferromagnet J = -1/N on N ~ 400 spins: N(N-1)/2 + N > 80000 bonds, only ~600 operators, so thousands of
/// steps are cheap. Structural oracles per block of steps; at the end the C01 oracle of the statement's last sentence: the
/// model is invariant under every permutation of the spins, so windows of bond indices must carry the same mean count.
fn sc_full400(seed: u64, thorough: bool) -> Out {
    let mut out = Out::default();
    let mut r = SplitMix64::new(seed);
    let n = 400 + r.below(12) as usize;
    let j = -1.0 / n as f64;
    let mut edges = vec![];
    for a in 0..n {
        for b in a + 1..n {
            edges.push(((a, b), j));
        }
    }
    let spec = ISpec::new("full", n, edges, 1.0, 0.0);
    let beta = 0.7;
    let ne = spec.ne();
    let nb = spec.nbonds();
    let mut g = spec.build(n, gen_state(&mut r, n), r.next());
    let head = format!("manybonds full {} beta={} bonds={}", spec.token(), beta, nb);
    let blocks = if thorough { 240 } else { 40 };
    let per_block = 50usize;
    let w = ne - 65536;
    let windows = [0usize, 30000, 65536];
    let mut win = [0u64; 3];
    let mut transverse = 0u64;
    let mut measured = 0u64;
    let mut failing = 0usize;
    let mut dead = false;
    for blk in 0..blocks {
        let mut c = Chk::new();
        let n0 = g.get_n();
        for k in 0..per_block {
            let step = blk * per_block + k;
            let lvl = if failing >= 3 {
                None
            } else if k == per_block - 1 {
                Some(NOFOLD)
            } else if k % 5 == 0 {
                Some(LIGHT)
            } else {
                None
            };
            if step % 3 == 2 {
                // explicit single steps (same pipeline as timestep without RVB)
                match lvl {
                    Some(l) => {
                        let sc = match diag_step_checked(&mut g, &spec, beta, l, &mut c, &mut r) {
                            Some(s) => s,
                            None => {
                                dead = true;
                                break;
                            }
                        };
                        if cluster_step_checked(&mut g, &spec, &sc, l, &mut c, &mut r, &mut out, "manybonds.full").is_none() {
                            dead = true;
                            break;
                        }
                    }
                    None => {
                        if c.call("single steps", || {
                            g.single_diagonal_step(beta);
                            g.single_cluster_step();
                        })
                        .is_none()
                        {
                            dead = true;
                            break;
                        }
                    }
                }
            } else {
                let cut0 = g.get_cutoff();
                if c.call("timestep", || {
                    g.timestep(beta);
                })
                .is_none()
                {
                    dead = true;
                    break;
                }
                if let Some(l) = lvl {
                    check_ising(&g, &spec, l, &mut c, &mut r);
                    cutoff_rule(&mut c, cut0, &g);
                }
            }
            let _ = verif_log::take();
            if step >= 200 {
                measured += 1;
                for (i, s0) in windows.iter().enumerate() {
                    win[i] += (*s0..*s0 + w).map(|b| g.get_bond_count(b) as u64).sum::<u64>();
                }
                transverse += (0..n).map(|i| g.get_bond_count(ne + i) as u64).sum::<u64>();
            }
        }
        if c.failed() {
            failing += 1;
        }
        if failing <= 3 || dead {
            out.case(n0 + g_n(&g) > 0, format!("{} steps {}..{} {}", head, blk * per_block, (blk + 1) * per_block, if dead { "-".to_string() } else { ctx(&g) }), c.done());
        }
        if dead {
            break;
        }
    }
    if !dead && measured >= 1000 {
        // C01: mean operator count per bond = beta * <bond term>, the same for every bond of a permutation-symmetric model
        let mut c = Chk::new();
        let cnt: Vec<f64> = win.iter().map(|x| *x as f64 / (measured as f64 * w as f64)).collect();
        let tr = transverse as f64 / (measured as f64 * n as f64);
        for k in [0usize, 2] {
            c.ck((cnt[k] - cnt[1]).abs() <= 0.25 * cnt[1], || {
                format!(
                    "C01 mean operator count per coupling bond differs between windows of bond indices of a permutation-symmetric model: bonds {}..{}: {:.6}, bonds {}..{}: {:.6} ({} steps)",
                    windows[k],
                    windows[k] + w,
                    cnt[k],
                    windows[1],
                    windows[1] + w,
                    cnt[1],
                    measured
                )
            });
        }
        c.ck(tr >= 0.9 * beta * spec.gamma && tr <= 2.1 * beta * spec.gamma, || {
            format!("C01 mean transverse-field operator count per site {:.4} outside [beta Gamma, 2 beta Gamma] = [{}, {}]", tr, beta * spec.gamma, 2.0 * beta * spec.gamma)
        });
        out.add("manybonds.full.count_per_bond_x1e6_window0", (cnt[0] * 1e6) as u64);
        out.add("manybonds.full.count_per_bond_x1e6_window1", (cnt[1] * 1e6) as u64);
        out.add("manybonds.full.count_per_bond_x1e6_window2", (cnt[2] * 1e6) as u64);
        out.add("manybonds.full.transverse_per_site_x1e4", (tr * 1e4) as u64);
        out.case(true, format!("{} per-bond operator counts over {} steps", head, measured), c.done());
    }
    out.add("manybonds.full.bonds", nb as u64);
    out
}
fn g_n(g: &G) -> usize {
    catch(|| g.get_n()).unwrap_or(0)
}

fn lattice_edges(l: usize) -> Vec<((usize, usize), f64)> {
    let f = |i: usize, j: usize| j * l + i;
    let mut edges = vec![];
    for i in 0..l {
        for j in 0..l {
            edges.push(((f(i, j), f((i + 1) % l, j)), -1.0));
            edges.push(((f(i, j), f(i, (j + 1) % l)), 1.0));
        }
    }
    edges
}
/// 130x130 periodic lattice, Gamma = 3, h = +-0.5, beta = 1: 33800 + 16900 + 16900 = 67600 bonds, the field terms of the last
/// ~2000 sites have bond index >= 65536; ~1e5 operators. One case per public call.
fn sc_lattice130(seed: u64, thorough: bool) -> Out {
    let mut out = Out::default();
    let mut r = SplitMix64::new(seed);
    let l = 130 + r.below(3) as usize;
    let h = if r.coin() { 0.5 } else { -0.5 };
    let spec = ISpec::new("lattice", l * l, lattice_edges(l), 3.0, h);
    let beta = 1.0;
    let nb = spec.nbonds();
    let st = if h > 0.0 { vec![true; l * l] } else { vec![false; l * l] };
    let st = if r.coin() { st } else { gen_state(&mut r, l * l) };
    let mut g = spec.build(60000, st, r.next());
    let head = format!("manybonds lattice {}x{} {} beta={} bonds={}", l, l, spec.token(), beta, nb);
    let pairs = if thorough { 12 } else { 5 };
    for step in 0..pairs {
        let mut c = Chk::new();
        let sc = diag_step_checked(&mut g, &spec, beta, NOFOLD, &mut c, &mut r);
        let dead = sc.is_none();
        out.case(true, format!("{} step {} single_diagonal_step {}", head, step, if dead { "-".into() } else { ctx(&g) }), c.done());
        let sc = match sc {
            Some(s) => s,
            None => break,
        };
        out.add("manybonds.lattice.ops_on_bonds_ge_65536", sc.ops.iter().filter(|o| o.bond >= 65536 || spec.bond_by_shape(o).map(|b| b >= 65536).unwrap_or(false)).count() as u64);
        let mut c = Chk::new();
        let after = cluster_step_checked(&mut g, &spec, &sc, NOFOLD, &mut c, &mut r, &mut out, "manybonds.lattice");
        let dead = after.is_none();
        out.case(true, format!("{} step {} single_cluster_step {}", head, step, if dead { "-".into() } else { ctx(&g) }), c.done());
        if dead {
            break;
        }
        if step + 1 == pairs {
            // one whole time step at the end (the pipeline in one call)
            let mut c = Chk::new();
            let cut0 = g.get_cutoff();
            if c.call("timestep", || {
                g.timestep(beta);
            })
            .is_some()
            {
                check_ising(&g, &spec, NOFOLD, &mut c, &mut r);
                cutoff_rule(&mut c, cut0, &g);
            }
            out.case(true, format!("{} timestep {}", head, ctx(&g)), c.done());
        }
        let _ = verif_log::take();
    }
    out.add("manybonds.lattice.bonds", nb as u64);
    out
}

// ------------------------------------------------------------------------------------------------------------------
// manyops: > 65535 operators on one bond; replica exchange in that regime (C10 in log space)
// ------------------------------------------------------------------------------------------------------------------
#[derive(Clone, PartialEq, Debug)]
struct Summ {
    n: usize,
    edge: Vec<usize>,
    t: usize,
    l: usize,
    state: Vec<bool>,
    /// fingerprint of (p, vars, ins, outs) of every operator
    fp: u64,
}
fn summarize(sc: &Scan, spec: &ISpec, state: &[bool]) -> Result<Summ, String> {
    let mut s = Summ { n: sc.ops.len(), edge: vec![0; spec.ne()], t: 0, l: 0, state: state.to_vec(), fp: 0 };
    for op in sc.ops.iter() {
        match (op.vars.len(), op.constant) {
            (2, _) => match spec.by_pair.get(&(op.vars[0], op.vars[1])) {
                Some(b) => s.edge[*b] += 1,
                None => return Err(format!("C07 p={} operator on {:?} matches no coupling of the model", op.p, op.vars)),
            },
            (1, true) => s.t += 1,
            (1, false) => s.l += 1,
            _ => return Err(format!("C07 p={} operator on {} variables", op.p, op.vars.len())),
        }
        let mut h = (op.p as u64).wrapping_mul(0x9E37_79B9_7F4A_7C15);
        for (k, v) in op.vars.iter().enumerate() {
            h = (h ^ (*v as u64 * 4 + op.ins[k] as u64 * 2 + op.outs[k] as u64)).wrapping_mul(0x100_0000_01B3).rotate_left(23);
        }
        s.fp = s.fp.wrapping_add(h);
    }
    Ok(s)
}
/// ln [ W_other(C) / W_self(C) ] (Hamiltonian part) of a configuration C sitting at `selfs`
fn ln_rel_weight(selfs: &ISpec, other: &ISpec, c: &Summ) -> f64 {
    let mut x = 0.0;
    for (b, k) in c.edge.iter().enumerate() {
        if *k > 0 {
            x += *k as f64 * (other.edges[b].1.abs().ln() - selfs.edges[b].1.abs().ln());
        }
    }
    if c.t > 0 {
        x += c.t as f64 * (other.gamma.ln() - selfs.gamma.ln());
    }
    if c.l > 0 {
        x += c.l as f64 * (other.h.abs().ln() - selfs.h.abs().ln());
    }
    x
}
/// ln of the exact Metropolis ratio W_a(C_b) W_b(C_a) / (W_a(C_a) W_b(C_b)) for neighbours (a, b); the (L - n)! factors
/// cancel because all replicas share one cutoff
fn ln_swap_ratio(sa: &ISpec, ba: f64, sb: &ISpec, bb: f64, ca: &Summ, cb: &Summ) -> f64 {
    (cb.n as f64 - ca.n as f64) * (ba.ln() - bb.ln()) + ln_rel_weight(sa, sb, ca) + ln_rel_weight(sb, sa, cb)
}
fn close_ln(got: f64, e: f64) -> bool {
    (got - e).abs() <= 1e-6 * e.abs().max(1.0)
}

/// one `tempering_step` under the C10 oracle: decisions predicted from the operator strings in log space with a mirror of
/// the container rng; exchange bookkeeping afterwards. `reps[i]` = (model, beta) of ladder position i.
fn tempering_round(tc: &mut TC, reps: &[(ISpec, f64)], c: &mut Chk, out: &mut Out, key: &str, lvl: Lvl, r: &mut SplitMix64) -> bool {
    let k = reps.len();
    let mut summ = vec![];
    for (i, (g, _)) in tc.graph_ref().iter().enumerate() {
        let sc = scan(g.get_manager_ref());
        match summarize(&sc, &reps[i].0, g.state_ref()) {
            Ok(s) => summ.push(s),
            Err(e) => {
                c.res(Err(e));
                return true;
            }
        }
    }
    // relative_weight against the operator string, both directions of every neighbouring pair
    for i in 0..k - 1 {
        for (x, y) in [(i, i + 1), (i + 1, i)] {
            let e = ln_rel_weight(&reps[x].0, &reps[y].0, &summ[x]);
            if e.abs() < 650.0 {
                let gx = &tc.graph_ref()[x].0;
                let gy = &tc.graph_ref()[y].0;
                if let Some(got) = c.call("relative_weight", || gx.relative_weight(gy)) {
                    c.ck(close_ln(got.ln(), e), || {
                        format!(
                            "C10 replica {}.relative_weight(replica {}) = {:e} (ln {}) but W_{}(C_{})/W_{}(C_{}) from the operator string ({} coupling ops, {} transverse) has ln {}",
                            x,
                            y,
                            got,
                            got.ln(),
                            y,
                            x,
                            x,
                            x,
                            summ[x].edge.iter().sum::<usize>(),
                            summ[x].t,
                            e
                        )
                    });
                }
            }
        }
    }
    let cut_before = tc.graph_ref().iter().map(|(g, _)| g.get_cutoff()).max().unwrap();
    // mirror of the container rng: order coin, then one uniform per pair in order
    let mut mirror = tc.rng_mut().clone();
    let coin: bool = mirror.gen_bool(0.5);
    let pairs_a: Vec<usize> = (0..(k - k % 2)).step_by(2).collect();
    let pairs_b: Vec<usize> = if k % 2 == 1 { (1..k).step_by(2).collect() } else { (1..k.saturating_sub(1)).step_by(2).collect() };
    let order = if coin { [pairs_a, pairs_b] } else { [pairs_b, pairs_a] };
    let mut perm: Vec<usize> = (0..k).collect();
    let mut predicted = 0u64;
    let mut tie = false;
    for phase in order.iter() {
        for i in phase.iter() {
            let p: f64 = mirror.gen_range(0. ..1.0);
            let (a, b) = (*i, *i + 1);
            let lr = ln_swap_ratio(&reps[a].0, reps[a].1, &reps[b].0, reps[b].1, &summ[perm[a]], &summ[perm[b]]);
            out.max(&format!("{}.max_abs_dn", key), (summ[perm[a]].n as i64 - summ[perm[b]].n as i64).unsigned_abs());
            if (lr - p.ln()).abs() < 1e-7 * lr.abs().max(1.0) {
                tie = true;
            }
            if lr > p.ln() {
                perm.swap(a, b);
                predicted += 1;
            }
        }
    }
    let swaps0 = tc.get_total_swaps();
    if c.call("tempering_step", || tc.tempering_step()).is_none() {
        return false;
    }
    let _ = verif_log::take();
    if tie {
        out.add(&format!("{}.knife_edge_rounds_not_compared", key), 1);
    } else {
        let got = tc.get_total_swaps() - swaps0;
        c.ck(got == predicted, || {
            format!(
                "C10 the step performed {} exchanges, min(1, W_a(C_b)W_b(C_a)/(W_a(C_a)W_b(C_b))) recomputed from the operator strings in log space against the mirrored rng demands {} (counts per replica: {:?})",
                got,
                predicted,
                summ.iter().map(|s| (s.n, s.edge.iter().sum::<usize>(), s.t)).collect::<Vec<_>>()
            )
        });
        out.add(&format!("{}.exchanges_predicted", key), predicted);
        out.add(&format!("{}.exchange_rounds", key), 1);
    }
    let mx = tc.graph_ref().iter().map(|(g, _)| g.get_cutoff()).max().unwrap();
    for (i, (g, beta)) in tc.graph_ref().iter().enumerate() {
        let spec = &reps[i].0;
        c.ck(*beta == reps[i].1, || format!("C10 position {} changed its beta", i));
        c.ck(
            g.get_transverse_field() == spec.gamma && g.get_longitudinal_field() == spec.h && g.get_edges().iter().zip(spec.edges.iter()).all(|((_, j), (_, j2))| j == j2),
            || format!("C10 position {} does not keep its Hamiltonian", i),
        );
        c.ck(g.get_cutoff() == mx && mx >= cut_before, || format!("C10 replicas do not share one cutoff after the step: position {} has {}, max {} (before {})", i, g.get_cutoff(), mx, cut_before));
        let mut cc = Chk::new();
        let sc = check_ising(g, spec, lvl, &mut cc, r);
        for e in cc.errs {
            c.res(Err(format!("position {}: {}", i, e)));
        }
        if !tie {
            match summarize(&sc, spec, g.state_ref()) {
                Ok(s) => c.ck(s == summ[perm[i]], || {
                    format!("C10 position {} should hold the configuration that sat at position {} (n = {}), it holds one with n = {}", i, perm[i], summ[perm[i]].n, s.n)
                }),
                Err(e) => c.res(Err(e)),
            }
        }
    }
    true
}

/// a single AF bond at beta |J| ~ 3.5e4: > 65535 operators on bond 0 of ONE sampler
fn sc_onebond(seed: u64, thorough: bool) -> Out {
    let mut out = Out::default();
    let mut r = SplitMix64::new(seed);
    let j = *r.pick(&[1.0625, 1.125, -1.0625]);
    let beta = (33060 + r.below(2000)) as f64;
    let spec = ISpec::new("onebond", 2, vec![((0, 1), j)], 0.125, 0.0);
    let st = if j > 0.0 { vec![false, true] } else { vec![true, true] };
    let mut g = spec.build(125_000, st, r.next());
    let head = format!("manyops onebond {} beta={}", spec.token(), beta);
    let steps = if thorough { 16 } else { 5 };
    for step in 0..steps {
        let mut c = Chk::new();
        let sc = diag_step_checked(&mut g, &spec, beta, FULL, &mut c, &mut r);
        let dead = sc.is_none();
        let nb0 = sc.as_ref().map(|s| s.ops.iter().filter(|o| o.vars.len() == 2).count()).unwrap_or(0);
        out.max("manyops.onebond.max_ops_on_one_bond", nb0 as u64);
        out.case(nb0 > 65535, format!("{} step {} single_diagonal_step {} ops_on_bond_0={}", head, step, if dead { "-".into() } else { ctx(&g) }, nb0), c.done());
        let sc = match sc {
            Some(s) => s,
            None => break,
        };
        let mut c = Chk::new();
        let after = cluster_step_checked(&mut g, &spec, &sc, FULL, &mut c, &mut r, &mut out, "manyops.onebond");
        let dead = after.is_none();
        out.case(nb0 > 65535, format!("{} step {} single_cluster_step {}", head, step, if dead { "-".into() } else { ctx(&g) }), c.done());
        if dead {
            break;
        }
        if step % 2 == 1 {
            let mut c = Chk::new();
            let cut0 = g.get_cutoff();
            if c.call("timestep", || {
                g.timestep(beta);
            })
            .is_some()
            {
                check_ising(&g, &spec, FULL, &mut c, &mut r);
                cutoff_rule(&mut c, cut0, &g);
            }
            out.case(true, format!("{} step {} timestep {}", head, step, ctx(&g)), c.done());
        }
        let _ = verif_log::take();
    }
    out
}

fn ladder_run(out: &mut Out, key: &str, head: &str, reps: Vec<(ISpec, f64)>, cutoff: usize, states: Vec<Vec<bool>>, warm: usize, rounds: usize, lvl: Lvl, r: &mut SplitMix64, nt: &dyn Fn(&TC) -> bool) {
    let mut tc: TC = TemperingContainer::new(SplitMix64::new(r.next()));
    for (i, (spec, beta)) in reps.iter().enumerate() {
        let g = spec.build(cutoff, states[i].clone(), r.next());
        if let Err(e) = tc.add_qmc_stepper(g, *beta) {
            out.case(true, format!("{} add_qmc_stepper", head), Err(format!("C10 replica {} of one lattice with equal signs refused: {}", i, e)));
            return;
        }
    }
    let mut c = Chk::new();
    let ok = c.call("timesteps (warm-up)", || tc.timesteps(warm)).is_some();
    let _ = verif_log::take();
    out.case(true, format!("{} warm-up {} steps", head, warm), c.done());
    if !ok {
        return;
    }
    for round in 0..rounds {
        let mut c = Chk::new();
        if c.call("timesteps(1)", || tc.timesteps(1)).is_none() {
            out.case(true, format!("{} round {}", head, round), c.done());
            return;
        }
        let _ = verif_log::take();
        let alive = tempering_round(&mut tc, &reps, &mut c, out, key, lvl, r);
        let ns: Vec<usize> = if alive { tc.graph_ref().iter().map(|(g, _)| g.get_n()).collect() } else { vec![] };
        out.case(alive && nt(&tc), format!("{} round {} tempering_step n={:?} swaps={}", head, round, ns, if alive { tc.get_total_swaps() } else { 0 }), c.done());
        if !alive {
            return;
        }
    }
    let mut c = Chk::new();
    c.ck(catch(|| tc.verify()).unwrap_or(false), || "C06 TemperingContainer::verify() is false".into());
    out.case(true, format!("{} verify", head), c.done());
}
/// replicas of the single bond with couplings 1.0 / 1.004 / 1.008 at one beta: the counts on bond 0 straddle 65536
fn sc_onebond_ladder(seed: u64, thorough: bool) -> Out {
    let mut out = Out::default();
    let mut r = SplitMix64::new(seed);
    let beta = (33040 + r.below(100)) as f64;
    let gamma = 0.1;
    let js = [1.0, 1.004, 1.008];
    let reps: Vec<(ISpec, f64)> = js.iter().map(|j| (ISpec::new("onebond", 2, vec![((0, 1), *j)], gamma, 0.0), beta)).collect();
    let head = format!("manyops onebond-ladder J={:?} G={} beta={}", js, gamma, beta);
    let rounds = if thorough { 48 } else { 14 };
    ladder_run(&mut out, "manyops.onebond_ladder", &head, reps, 125_000, vec![vec![false, true]; 3], 8, rounds, FULL, &mut r, &|tc| {
        tc.graph_ref().iter().any(|(g, _)| g.get_n() > 65535)
    });
    out
}
/// one model at beta = 64, 64.25, 64.5 on a ring of 256 spins: n ~ 5e4 per replica, |n_b - n_a| regularly beyond 170, where
/// beta^|dn| leaves the binary64 range although (beta_a / beta_b)^dn is of order one
fn sc_beta_ladder(seed: u64, thorough: bool) -> Out {
    let mut out = Out::default();
    let mut r = SplitMix64::new(seed);
    let l = 256usize;
    let edges: Vec<((usize, usize), f64)> = (0..l).map(|i| ((i, (i + 1) % l), -1.0)).collect();
    let spec = ISpec::new("ring", l, edges, 1.0, 0.0);
    let betas = [64.0, 64.25, 64.5];
    let reps: Vec<(ISpec, f64)> = betas.iter().map(|b| (spec.clone(), *b)).collect();
    let head = format!("manyops beta-ladder {} betas={:?}", spec.token(), betas);
    let st = gen_state(&mut r, l);
    let rounds = if thorough { 40 } else { 12 };
    ladder_run(&mut out, "manyops.beta_ladder", &head, reps, 90_000, vec![st; 3], 5, rounds, NOFOLD, &mut r, &|tc| {
        let ns: Vec<usize> = tc.graph_ref().iter().map(|(g, _)| g.get_n()).collect();
        ns.windows(2).any(|w| (w[0] as i64 - w[1] as i64).abs() > 170)
    });
    out
}

/// replica ladder of the fully connected model (three transverse fields / betas): the Hamiltonian part of the exchange ratio
/// is read from the per-bond counters of > 65536 bonds; recomputed here from the operator strings by operator SHAPE
fn sc_full_ladder(seed: u64, thorough: bool) -> Out {
    let mut out = Out::default();
    let mut r = SplitMix64::new(seed);
    let n = 400 + r.below(12) as usize;
    let j = -1.0 / n as f64;
    let mut edges = vec![];
    for a in 0..n {
        for b in a + 1..n {
            edges.push(((a, b), j));
        }
    }
    let pars = [(1.0, 0.7), (1.125, 0.75), (1.25, 0.8)];
    let reps: Vec<(ISpec, f64)> = pars.iter().map(|(g, b)| (ISpec::new("full", n, edges.clone(), *g, 0.0), *b)).collect();
    let head = format!("manybonds full-ladder n={} bonds={} (Gamma, beta)={:?}", n, reps[0].0.nbonds(), pars);
    let st = gen_state(&mut r, n);
    let rounds = if thorough { 120 } else { 30 };
    ladder_run(&mut out, "manybonds.full_ladder", &head, reps, n, vec![st; 3], 30, rounds, NOFOLD, &mut r, &|_| true);
    out
}
/// central-spin star: one hub coupled to > 65535 leaves (|J| = 1/256, alternating sign), Gamma = 0.3, beta = 1: a vertex of
/// degree > 65535, so one RVB region has > 65535 bonds on its boundary. Legality of every stored operator after every sweep.
fn sc_star(seed: u64, thorough: bool) -> Out {
    let mut out = Out::default();
    let mut r = SplitMix64::new(seed);
    let leaves = 72_000 + r.below(2_000) as usize;
    let j = 1.0 / 256.0;
    let edges: Vec<((usize, usize), f64)> = (0..leaves).map(|i| ((0, i + 1), if i % 2 == 0 { -j } else { j })).collect();
    let spec = ISpec::new("star", leaves + 1, edges, 0.3, 0.0);
    let beta = 1.0;
    let mut g = spec.build(60_000, (0..leaves + 1).map(|_| r.coin()).collect(), r.next());
    let head = format!("hubstar {} beta={} hub_degree={}", spec.token(), beta, leaves);
    for step in 0..2 {
        let mut c = Chk::new();
        let t = Instant::now();
        let sc = diag_step_checked(&mut g, &spec, beta, NOFOLD, &mut c, &mut r);
        out.case(true, format!("{} thermalise {} single_diagonal_step {}", head, step, if sc.is_some() { ctx(&g) } else { "-".into() }), c.done());
        let sc = match sc {
            Some(s) => s,
            None => return out,
        };
        let mut c = Chk::new();
        let t1 = Instant::now();
        let after = cluster_step_checked(&mut g, &spec, &sc, NOFOLD, &mut c, &mut r, &mut out, "hubstar");
        if std::env::var("BIGSCALE_TIMING").is_ok() {
            eprintln!("STAR step {} diag+checks {:.2}s cluster+checks {:.2}s n={}", step, (t1 - t).as_secs_f64(), t1.elapsed().as_secs_f64(), sc.ops.len());
        }
        out.case(true, format!("{} thermalise {} single_cluster_step {}", head, step, if after.is_some() { ctx(&g) } else { "-".into() }), c.done());
        if after.is_none() {
            return out;
        }
    }
    let rounds = if thorough { 40 } else { 20 };
    for round in 0..rounds {
        let mut c = Chk::new();
        let alive = rvb_sweep_checked(&mut g, &spec, Some(16), if round % 4 == 3 { NOFOLD } else { LIGHT }, &mut c, &mut r, &mut out, "hubstar");
        out.case(true, format!("{} round {} single_rvb_sweep(16) {}", head, round, if alive { ctx(&g) } else { "-".into() }), c.done());
        if !alive {
            return out;
        }
        let mut c = Chk::new();
        let alive = diag_step_checked(&mut g, &spec, beta, if round % 3 == 2 { NOFOLD } else { LIGHT }, &mut c, &mut r).is_some();
        out.case(true, format!("{} round {} single_diagonal_step {}", head, round, if alive { ctx(&g) } else { "-".into() }), c.done());
        if !alive {
            return out;
        }
    }
    out
}

// ------------------------------------------------------------------------------------------------------------------
// round-8 additions: cutoff hand-back in the container, > 65536 variables / interactions in the generic sampler, long
// measuring runs, classical worm on > 65536 sites
// ------------------------------------------------------------------------------------------------------------------
/// three replicas of an 8-spin chain with a user-supplied cutoff of 100000 slots: the shared cutoff exceeds 65536 while every
/// replica needs a few dozen slots. C12: no replica's cutoff ever decreases, every operator stays below it; C10: one cutoff.
fn sc_ladder_cutoff(seed: u64, thorough: bool) -> Out {
    let mut out = Out::default();
    let mut r = SplitMix64::new(seed);
    let n = 8usize;
    let edges: Vec<((usize, usize), f64)> = (0..n - 1).map(|i| ((i, i + 1), if i % 2 == 0 { -1.0 } else { 0.5 })).collect();
    let spec = ISpec::new("chain", n, edges, 1.0, 0.0);
    let betas = [0.5, 1.0, 2.0];
    let reps: Vec<(ISpec, f64)> = betas.iter().map(|b| (spec.clone(), *b)).collect();
    let cutoff = 100_000 + r.below(30_000) as usize;
    let head = format!("longstring ladder-cutoff {} betas={:?} initial_cutoff={}", spec.token(), betas, cutoff);
    let st = gen_state(&mut r, n);
    let rounds = if thorough { 24 } else { 8 };
    ladder_run(&mut out, "longstring.ladder_cutoff", &head, reps, cutoff, vec![st; 3], 2, rounds, FULL, &mut r, &|tc| tc.graph_ref().iter().any(|(g, _)| g.get_cutoff() > 65536));
    out
}

type Q = Qmc<SplitMix64, FastOps>;
struct GTerm {
    vars: SV,
    constant: bool,
    /// weight by (index of ins, index of outs), msb first; only symmetric matrices are used
    mat: Vec<f64>,
}
struct GSpec {
    terms: Vec<GTerm>,
    shape: HashMap<(SV, bool), usize>,
}
impl GSpec {
    fn new(terms: Vec<GTerm>) -> Self {
        let shape = terms.iter().enumerate().map(|(b, t)| ((t.vars.clone(), t.constant), b)).collect();
        GSpec { terms, shape }
    }
}
impl HamSpec for GSpec {
    fn nbonds(&self) -> usize {
        self.terms.len()
    }
    fn edge(&self, b: usize) -> (SV, bool) {
        (self.terms[b].vars.clone(), self.terms[b].constant)
    }
    fn weight(&self, b: usize, ins: &[bool], outs: &[bool]) -> f64 {
        let t = &self.terms[b];
        let k = t.vars.len();
        if ins.len() != k || outs.len() != k {
            return 0.0;
        }
        let idx = |x: &[bool]| x.iter().fold(0usize, |a, v| a * 2 + *v as usize);
        t.mat[idx(ins) * (1 << k) + idx(outs)]
    }
    fn bond_by_shape(&self, op: &SOp) -> Option<usize> {
        self.shape.get(&(op.vars.clone(), op.constant)).cloned()
    }
}
fn check_generic(q: &Q, gs: &GSpec, count_sample: &[usize], c: &mut Chk, r: &mut SplitMix64) -> Scan {
    let m = q.get_manager_ref();
    let sc = scan(m);
    c.res(check_worldlines(m, &sc, q.state_ref()));
    let legal = check_legal(m, &sc, gs);
    let ok = legal.is_ok();
    c.res(legal);
    if ok {
        for op in sc.ops.iter() {
            let w = q.get_bonds()[op.bond].at(&op.ins, &op.outs).unwrap_or(f64::NAN);
            if w != gs.weight(op.bond, &op.ins, &op.outs) {
                c.ck(false, || format!("C04 bond {} at({}->{}) = {} expected {}", op.bond, bits(&op.ins), bits(&op.outs), w, gs.weight(op.bond, &op.ins, &op.outs)));
                break;
            }
        }
    }
    c.res(check_nav(m, &sc, gs.nbonds(), count_sample, r));
    for b in count_sample.iter() {
        let e = sc.ops.iter().filter(|o| gs.bond_by_shape(o) == Some(*b)).count();
        if *b < gs.nbonds() && q.get_bond_count(*b) != e {
            c.ck(false, || format!("C11 get_bond_count({}) = {} but {} stored operators act on that interaction's variables", b, q.get_bond_count(*b), e));
        }
    }
    let n = sc.ops.len();
    c.ck(QmcStepper::get_n(q) == n, || format!("C11 sampler get_n {} vs scan {}", QmcStepper::get_n(q), n));
    c.ck(q.get_cutoff() >= n + n / 2 + 1, || format!("C12 cutoff {} < n + n/2 + 1 with n = {}", q.get_cutoff(), n));
    sc
}
fn generic_run(out: &mut Out, head: &str, mut q: Q, gs: &GSpec, beta: f64, steps: usize, sample: &dyn Fn(&mut SplitMix64) -> Vec<usize>, r: &mut SplitMix64) {
    for step in 0..steps {
        let mut c = Chk::new();
        let cut0 = q.get_cutoff();
        pool_begin();
        let alive = c
            .call("timestep", || {
                q.timestep(beta);
            })
            .is_some();
        c.res(pool_end("timestep").map(|_| ()));
        if alive {
            check_generic(&q, gs, &sample(r), &mut c, r);
            c.ck(q.get_cutoff() >= cut0, || format!("C12 the cutoff decreased from {} to {}", cut0, q.get_cutoff()));
        }
        // C16: whatever the constructors accepted must be sampled; the violated invariant follows the colon
        let res = c.done().map_err(|e| e.split("; ").map(|x| format!("C16 the accepted interactions are not sampled faithfully: {}", x)).collect::<Vec<_>>().join("; "));
        out.case(true, format!("{} step {} timestep n={} cutoff={}", head, step, if alive { QmcStepper::get_n(&q) } else { 0 }, if alive { q.get_cutoff() } else { 0 }), res);
        if !alive {
            return;
        }
    }
}
/// generic sampler on > 65536 VARIABLES with six interactions: per-variable scratch buffers exceed 65536 elements
fn sc_vars70k(seed: u64, thorough: bool) -> Out {
    let mut out = Out::default();
    let mut r = SplitMix64::new(seed);
    let nvars = 70_000 + r.below(4_000) as usize;
    let mut q: Q = Qmc::new_with_state(nvars, SplitMix64::new(r.next()), (0..nvars).map(|_| r.coin()).collect::<Vec<bool>>(), true);
    let mut terms = vec![];
    let mut bad = None;
    for v in 0..4usize {
        if let Err(e) = q.make_interaction(vec![1.0, 1.0, 1.0, 1.0], vec![v * 17]) {
            bad = Some(e);
        }
        terms.push(GTerm { vars: smallvec![v * 17], constant: true, mat: vec![1.0; 4] });
    }
    for (a, b, w) in [(0usize, nvars - 1, 1.0), (17usize, nvars / 2, 0.5)] {
        if let Err(e) = q.make_diagonal_interaction(vec![w, 0.0, 0.0, w], vec![a, b]) {
            bad = Some(e);
        }
        let mut mat = vec![0.0; 16];
        mat[0] = w;
        mat[15] = w;
        terms.push(GTerm { vars: smallvec![a, b], constant: false, mat });
    }
    let head = format!("manyvars vars nvars={} interactions=6 beta=2", nvars);
    if let Some(e) = bad {
        out.case(true, head, Err(format!("C16 a legal interaction was refused: {}", e)));
        return out;
    }
    let gs = GSpec::new(terms);
    generic_run(&mut out, &head, q, &gs, 2.0, if thorough { 30 } else { 10 }, &|_| vec![0, 1, 4, 5, 6, 65536], &mut r);
    out
}
/// transverse-field Ising chain written term by term in the generic sampler (the layout `into_qmc` produces: couplings first,
/// then one field term per site): > 65536 INTERACTIONS, loop + cluster updates on
fn sc_terms70k(seed: u64, thorough: bool) -> Out {
    let mut out = Out::default();
    let mut r = SplitMix64::new(seed);
    let l = 35_000 + r.below(2_000) as usize;
    let mut q: Q = Qmc::new_with_state(l, SplitMix64::new(r.next()), vec![r.coin(); l], true);
    let mut terms = Vec::with_capacity(2 * l);
    for i in 0..l {
        let (a, b) = (i, (i + 1) % l);
        q.make_diagonal_interaction(vec![2.0, 0.0, 0.0, 2.0], vec![a, b]).unwrap();
        let mut mat = vec![0.0; 16];
        mat[0] = 2.0;
        mat[15] = 2.0;
        terms.push(GTerm { vars: smallvec![a, b], constant: false, mat });
    }
    for i in 0..l {
        q.make_interaction(vec![1.0, 1.0, 1.0, 1.0], vec![i]).unwrap();
        terms.push(GTerm { vars: smallvec![i], constant: true, mat: vec![1.0; 4] });
    }
    let gs = GSpec::new(terms);
    let head = format!("manyvars terms chain L={} interactions={} beta=1", l, 2 * l);
    let nb = 2 * l;
    generic_run(&mut out, &head, q, &gs, 1.0, if thorough { 12 } else { 4 }, &move |r: &mut SplitMix64| vec![0, 65535, 65536 + r.below((nb - 65536) as u64) as usize, nb - 1, nb], &mut r);
    out
}
/// C17: the energy returned by a measuring run = -(sum of get_n over the sampled steps / steps)/beta + offset, with the sum
/// taken EXACTLY (u64 tally inside the fold); sum n > 2^24 with few steps of a long string
fn sc_tally(seed: u64, thorough: bool) -> Out {
    let mut out = Out::default();
    let mut r = SplitMix64::new(seed);
    let l = 64usize;
    let edges: Vec<((usize, usize), f64)> = (0..l).map(|i| ((i, (i + 1) % l), -1.0)).collect();
    let spec = ISpec::new("ring", l, edges, 1.0, 0.0);
    let beta = 100.0;
    let mut g = spec.build(40_000, gen_state(&mut r, l), r.next());
    let head = format!("longrun tally {} beta={}", spec.token(), beta);
    let mut c = Chk::new();
    if c.call("warm-up", || g.timesteps(5, beta)).is_none() {
        out.case(true, head, c.done());
        return out;
    }
    for (k, (steps, freq)) in (if thorough { vec![(1500usize, None), (2400, Some(2)), (1500, Some(1))] } else { vec![(1100usize, None)] }).into_iter().enumerate() {
        let mut c = Chk::new();
        if let Some(((sum, cnt), e)) = c.call("timesteps_measure_with_self", || g.timesteps_measure_with_self(steps, beta, (0u64, 0u64), |(s, k), me| (s + QmcStepper::get_n(me) as u64, k + 1), freq)) {
            let expect = g.get_energy_for_average_n(sum as f64 / cnt as f64, beta);
            c.ck(cnt as usize == steps / freq.unwrap_or(1), || format!("C17 {} samples for {} steps with period {:?}", cnt, steps, freq));
            c.ck((e - expect).abs() <= 1e-12 * expect.abs(), || {
                format!("C17 measuring run over {} sampled steps returns energy {} but -(sum n / steps)/beta + offset with the exact tally sum n = {} is {} (relative difference {:e})", cnt, e, sum, expect, ((e - expect) / expect).abs())
            });
            out.max("longrun.tally.max_sum_n", sum);
            out.case(sum > (1 << 24), format!("{} run {} steps={} period={:?} sum_n={}", head, k, steps, freq, sum), c.done());
        } else {
            out.case(true, format!("{} run {}", head, k), c.done());
            break;
        }
        let _ = verif_log::take();
    }
    out
}
/// C20: the tempering autocorrelation helper over more than 65536 time steps with a sampling period that does not divide
/// 65536 = the documented normalised (circular) autocorrelation of the states a clone records with ONE
/// `parallel_timesteps_sample` call of the same arguments; selected lags
fn sc_autocorr(seed: u64, thorough: bool) -> Out {
    let mut out = Out::default();
    let mut r = SplitMix64::new(seed);
    let n = 3usize;
    let edges: Vec<((usize, usize), f64)> = vec![((0, 1), -1.0), ((1, 2), 0.5)];
    let spec = ISpec::new("chain", n, edges, 1.0, 0.0);
    let mut tc: TC = TemperingContainer::new(SplitMix64::new(r.next()));
    for beta in [0.5, 1.0] {
        tc.add_qmc_stepper(spec.build(8, gen_state(&mut r, n), r.next()), beta).unwrap();
    }
    let t = 70_000 + r.below(if thorough { 70_000 } else { 3_000 }) as usize;
    let (swap, freq) = (*r.pick(&[5usize, 7]), 3usize);
    let head = format!("longrun autocorr {} betas=[0.5,1] timesteps={} swap_period={} sampling_period={}", spec.token(), t, swap, freq);
    let mut c = Chk::new();
    let mut reference = tc.clone();
    let samples = c.call("parallel_timesteps_sample", || reference.parallel_timesteps_sample(t, swap, freq));
    let got = c.call("calculate_variable_autocorrelation", || tc.calculate_variable_autocorrelation(t, Some(swap), Some(freq)));
    if let (Some(samples), Some(got)) = (samples, got) {
        for (k, ((states, _), ac)) in samples.iter().zip(got.iter()).enumerate() {
            let s = states.len();
            c.ck(ac.len() == s && s == t / freq, || format!("C20 replica {}: {} lags for {} samples ({} expected)", k, ac.len(), s, t / freq));
            if ac.len() != s || s == 0 {
                continue;
            }
            // x_i(t) = +-1 minus mean, normalised; r(lag) = mean over variables of the circular autocorrelation
            let mut xs: Vec<Vec<f64>> = vec![];
            for i in 0..n {
                let raw: Vec<f64> = states.iter().map(|st| if st[i] { 1.0 } else { -1.0 }).collect();
                let mean = raw.iter().sum::<f64>() / s as f64;
                let mut x: Vec<f64> = raw.iter().map(|v| v - mean).collect();
                let norm = x.iter().map(|v| v * v).sum::<f64>().sqrt();
                x.iter_mut().for_each(|v| *v /= norm);
                xs.push(x);
            }
            let mut lags = vec![0usize, 1, 2, 3, 7, 100, s / 2, s - 1];
            for _ in 0..8 {
                lags.push(r.below(s as u64) as usize);
            }
            for lag in lags {
                let e = xs.iter().map(|x| (0..s).map(|u| x[u] * x[(u + lag) % s]).sum::<f64>()).sum::<f64>() / n as f64;
                if !((ac[lag] - e).abs() <= 1e-7) {
                    c.ck(false, || format!("C20 replica {} lag {}: helper returns {} but the normalised autocorrelation of the states at multiples of the sampling period is {}", k, lag, ac[lag], e));
                    break;
                }
            }
        }
    }
    out.case(true, head, c.done());
    out
}
/// classical ring of > 65536 sites, couplings +-1, zero biases, worm moves only: a worm closes on zero total energy change,
/// so the reported energy is exactly constant from step to step (and equals the direct sum over the edges)
fn sc_worm(seed: u64, thorough: bool) -> Out {
    use qmc::classical::graph::GraphState;
    let mut out = Out::default();
    let mut r = SplitMix64::new(seed);
    let n = 70_000 + r.below(5_000) as usize;
    let edges: Vec<((usize, usize), f64)> = (0..n).map(|i| ((i, (i + 1) % n), if r.coin() { 1.0 } else { -1.0 })).collect();
    let biases = vec![0.0; n];
    let mut g = GraphState::new(&edges, &biases, SplitMix64::new(r.next()));
    let head = format!("classicalring worm sites={} couplings=+-1 biases=0 beta=1", n);
    let direct = |s: &[bool]| edges.iter().map(|((a, b), j)| if s[*a] == s[*b] { *j } else { -*j }).sum::<f64>();
    let steps = if thorough { 1500 } else { 400 };
    let block = 100;
    let mut last = g.get_energy();
    let mut moved = 0u64;
    let mut last_state = g.clone_state();
    for blk in 0..steps / block {
        let mut c = Chk::new();
        let mut alive = true;
        for _ in 0..block {
            if c.call("do_time_step", || g.do_time_step(1.0, Some(0), Some(0), Some(20), None)).is_none() {
                alive = false;
                break;
            }
            let e = g.get_energy();
            c.ck(e == last, || format!("C19 a worm-only time step on a +-1 ring with zero biases changed the reported energy {} -> {}", last, e));
            last = e;
            if g.state_ref() != last_state.as_slice() {
                moved += 1;
                last_state = g.clone_state();
            }
        }
        if alive {
            let d = direct(g.state_ref());
            // the library reports the energy with the opposite overall sign convention or the same: compare magnitudes of change only
            c.ck((g.get_energy().abs() - d.abs()).abs() < 1e-6, || format!("C19 get_energy {} vs direct sum over the edges {}", g.get_energy(), d));
        }
        let failed = c.failed();
        out.case(moved > 0, format!("{} steps {}..{} moved_so_far={}", head, blk * block, (blk + 1) * block, moved), c.done());
        if !alive || failed {
            break;
        }
    }
    out.add("classicalring.steps_that_moved_spins", moved);
    out
}

// ------------------------------------------------------------------------------------------------------------------
// bigcluster: one cluster with more than 33000 operators
// ------------------------------------------------------------------------------------------------------------------
/// synthetic strings through the public constructor `FastOps::new_from_ops`: 2 or 3 world lines tied together by > 40000
/// diagonal two-site operators, a few constant single-site operators; the trait-level cluster update under the C09 oracle
fn sc_ladder(seed: u64, thorough: bool) -> Out {
    let mut out = Out::default();
    let mut r = SplitMix64::new(seed);
    let variants = if thorough { 6 } else { 2 };
    for variant in 0..variants {
        let nvars = if variant % 2 == 0 { 2 } else { 3 };
        let n_two = 40_000 + r.below(8_000) as usize;
        let val = r.coin();
        let n_const = 1 + r.below(3) as usize;
        // positions of the constant ops among the two-site ops (the demo's layout for variant 0: one at p = 0)
        let mut const_at: Vec<usize> = (0..n_const).map(|k| if variant == 0 && k == 0 { 0 } else { r.below(n_two as u64) as usize }).collect();
        const_at.sort_unstable();
        const_at.dedup();
        let mut ops: Vec<(usize, FastOp)> = Vec::with_capacity(n_two + 4);
        let mut p = 0usize;
        let mut ci = 0usize;
        for k in 0..n_two {
            if ci < const_at.len() && const_at[ci] == k {
                let v = if ci == 0 { 0 } else { r.below(nvars as u64) as usize };
                ops.push((p, FastOp::diagonal(smallvec![v], 1 + v, smallvec![val], true)));
                p += 1 + r.below(2) as usize;
                ci += 1;
            }
            let a = if nvars == 2 { 0 } else { k % 2 };
            ops.push((p, FastOp::diagonal(smallvec![a, a + 1], 0, smallvec![val, val], false)));
            p += 1 + if variant == 0 { 0 } else { r.below(2) as usize };
        }
        let nops = ops.len();
        let head = format!("bigcluster ladder variant={} world_lines={} two_site_ops={} constant_ops={} value={}", variant, nvars, n_two, const_at.len(), val as u8);
        let mut c = Chk::new();
        pool_begin();
        let man = c.call("new_from_ops", || FastOps::new_from_ops(nvars, ops.into_iter()));
        c.res(pool_end("new_from_ops").map(|_| ()));
        let mut man = match man {
            Some(m) => m,
            None => {
                out.case(true, format!("{} new_from_ops", head), c.done());
                continue;
            }
        };
        let mut state = vec![val; nvars];
        let sc0 = scan(&man);
        c.ck(sc0.ops.len() == nops, || format!("C11 new_from_ops holds {} of {} operators", sc0.ops.len(), nops));
        c.res(check_worldlines(&man, &sc0, &state));
        c.res(check_nav(&man, &sc0, 4, &[0, 1, 2, 3, 4], &mut r));
        out.case(true, format!("{} new_from_ops", head), c.done());
        let lnw = |op: &SOp| {
            if op.vars.len() == 1 {
                0.0
            } else if op.ins == op.outs && op.ins[0] == op.ins[1] {
                0.0
            } else {
                f64::NEG_INFINITY
            }
        };
        let reps = if thorough { 12 } else { 6 };
        let mut before = sc0;
        for rep in 0..reps {
            let mut c = Chk::new();
            let mut rng = SplitMix64::new(r.next());
            pool_begin();
            let weighted = rep % 3 == 2;
            let ret = if weighted {
                c.call("flip_each_cluster_rng", || man.flip_each_cluster_rng(0.5, &mut rng, &mut state, Some(|_n: &FastOpNode| 1.0)))
            } else {
                c.call("flip_each_cluster_ising_symmetry_rng", || man.flip_each_cluster_ising_symmetry_rng(0.5, &mut rng, &mut state))
            };
            c.res(pool_end("cluster update").map(|_| ()));
            let alive = ret.is_some();
            if alive {
                let after = scan(&man);
                c.res(check_worldlines(&man, &after, &state));
                c.res(check_cluster_step(&before, &after, nvars, ret, &|_| false, &lnw, &mut out, "bigcluster.ladder"));
                if rep % 3 == 0 {
                    c.res(check_nav(&man, &after, 4, &[0, 1, 2, 3, 4], &mut r));
                }
                before = after;
            }
            out.case(true, format!("{} cluster update {} ({}) returned {:?}", head, rep, if weighted { "weighted, ratio 1" } else { "ising symmetry" }, ret), c.done());
            if !alive {
                break;
            }
        }
    }
    out
}
fn ferro_edges(l: usize) -> Vec<((usize, usize), f64)> {
    let f = |i: usize, j: usize| j * l + i;
    let mut edges = vec![];
    for i in 0..l {
        for j in 0..l {
            edges.push(((f(i, j), f((i + 1) % l, j)), -1.0));
            edges.push(((f(i, j), f(i, (j + 1) % l)), -1.0));
        }
    }
    edges
}
/// 32x32 ferromagnet deep in the ordered phase (Gamma = 0.3, beta = 25): ~1e5 operators, almost all of them in ONE cluster
fn sc_ferro32(seed: u64, thorough: bool) -> Out {
    let mut out = Out::default();
    let mut r = SplitMix64::new(seed);
    let l = 32usize;
    let gamma = *r.pick(&[0.3, 0.25, 0.375]);
    let beta = *r.pick(&[25.0, 24.0, 26.0]);
    let spec = ISpec::new("ferro", l * l, ferro_edges(l), gamma, 0.0);
    let up = r.coin();
    let mut g = spec.build(200_000, vec![up; l * l], r.next());
    let head = format!("bigcluster ferro {}x{} {} beta={}", l, l, spec.token(), beta);
    let pairs = if thorough { 16 } else { 5 };
    for step in 0..pairs {
        let last = step + 1 == pairs;
        let lvl = if last { FULL } else { NOFOLD };
        let mut c = Chk::new();
        let sc = diag_step_checked(&mut g, &spec, beta, NOFOLD, &mut c, &mut r);
        let dead = sc.is_none();
        out.case(true, format!("{} step {} single_diagonal_step {}", head, step, if dead { "-".into() } else { ctx(&g) }), c.done());
        let sc = match sc {
            Some(s) => s,
            None => break,
        };
        let mut c = Chk::new();
        let after = cluster_step_checked(&mut g, &spec, &sc, lvl, &mut c, &mut r, &mut out, "bigcluster.ferro");
        let dead = after.is_none();
        out.case(sc.ops.len() > 66000, format!("{} step {} single_cluster_step {}", head, step, if dead { "-".into() } else { ctx(&g) }), c.done());
        if dead {
            break;
        }
        if step % 2 == 1 {
            let mut c = Chk::new();
            let cut0 = g.get_cutoff();
            if c.call("timestep", || {
                g.timestep(beta);
            })
            .is_some()
            {
                check_ising(&g, &spec, NOFOLD, &mut c, &mut r);
                cutoff_rule(&mut c, cut0, &g);
            } else {
                out.case(true, format!("{} step {} timestep -", head, step), c.done());
                break;
            }
            out.case(true, format!("{} step {} timestep {}", head, step, ctx(&g)), c.done());
        }
        let _ = verif_log::take();
    }
    out
}

// ------------------------------------------------------------------------------------------------------------------
// longstring: operator list with more than 65536 slots; temperature schedule; dense graph under RVB
// ------------------------------------------------------------------------------------------------------------------
fn rvb_sweep_checked(g: &mut G, spec: &ISpec, k: Option<usize>, lvl: Lvl, c: &mut Chk, r: &mut SplitMix64, out: &mut Out, key: &str) -> bool {
    let before = scan(g.get_manager_ref());
    pool_begin();
    let ret = c.call("single_rvb_sweep", || g.single_rvb_sweep(k));
    c.res(pool_end("single_rvb_sweep").map(|_| ()));
    let (succ, att) = match ret {
        Some(x) => x,
        None => return false,
    };
    out.add(&format!("{}.rvb_attempts", key), att as u64);
    out.add(&format!("{}.rvb_successes", key), succ as u64);
    c.ck(succ <= att, || format!("C03 single_rvb_sweep reports {} successes of {} attempts", succ, att));
    let after = check_ising(g, spec, lvl, c, r);
    // the RVB move flips spins between constant operators (which turn from identity into spin flip and back) and relabels
    // diagonal coupling operators on the bonds of the flipped region; single-site operators keep their slots and bonds
    let single = |s: &Scan| s.ops.iter().filter(|o| o.vars.len() == 1).map(|o| (o.p, o.bond, o.constant)).collect::<Vec<_>>();
    c.ck(single(&before) == single(&after), || "C03 the RVB sweep moved or relabelled single-site operators".into());
    out.add(&format!("{}.rvb_changed_n", key), (before.ops.len() != after.ops.len()) as u64);
    true
}
/// ring of 256 spins, J = -1, Gamma = 1, beta ~ 100: ~8e4 operators, > 1e5 slots. Interleavings of diagonal, cluster, RVB
/// steps and whole time steps, every call under the pool hook log (every returned buffer clean, gets = returns)
fn sc_ring256(seed: u64, thorough: bool) -> Out {
    let mut out = Out::default();
    let mut r = SplitMix64::new(seed);
    let l = 256usize;
    let edges: Vec<((usize, usize), f64)> = (0..l).map(|i| ((i, (i + 1) % l), -1.0)).collect();
    let spec = ISpec::new("ring", l, edges, 1.0, 0.0);
    let beta = *r.pick(&[100.0, 96.0, 104.0]);
    let cutoff0 = *r.pick(&[16384usize, 70000, 100000]);
    let mut g = spec.build(cutoff0, gen_state(&mut r, l), r.next());
    let head = format!("longstring ring {} beta={} cutoff0={}", spec.token(), beta, cutoff0);
    let rounds = if thorough { 8 } else { 3 };
    // grow the string first (cutoff0 may be small): plain diagonal steps, each checked
    let mut guard = 0;
    while g.get_cutoff() < 66000 && guard < 12 {
        guard += 1;
        let mut c = Chk::new();
        let alive = diag_step_checked(&mut g, &spec, beta, NOFOLD, &mut c, &mut r).is_some();
        out.case(false, format!("{} growth single_diagonal_step {}", head, if alive { ctx(&g) } else { "-".into() }), c.done());
        if !alive {
            return out;
        }
    }
    let script: [&str; 8] = ["diag", "cluster", "diag", "rvb", "cluster", "timestep", "rvb", "diag"];
    'outer: for round in 0..rounds {
        if round == 1 {
            g.set_run_rvb(true);
        }
        if round == 2 {
            g.set_run_rvb(false);
        }
        for (k, call) in script.iter().enumerate() {
            let mut c = Chk::new();
            let big = g.get_manager_ref().get_cutoff() > 65536;
            let alive = match *call {
                "diag" => diag_step_checked(&mut g, &spec, beta, if k == 0 { FULL } else { NOFOLD }, &mut c, &mut r).is_some(),
                "cluster" => {
                    let before = scan(g.get_manager_ref());
                    cluster_step_checked(&mut g, &spec, &before, NOFOLD, &mut c, &mut r, &mut out, "longstring.ring").is_some()
                }
                "rvb" => {
                    let kk = if r.coin() { None } else { Some(1 + r.below(64) as usize) };
                    rvb_sweep_checked(&mut g, &spec, kk, NOFOLD, &mut c, &mut r, &mut out, "longstring.ring")
                }
                _ => {
                    let cut0 = g.get_cutoff();
                    pool_begin();
                    let ok = c.call("timestep", || {
                        g.timestep(beta);
                    })
                    .is_some();
                    c.res(pool_end("timestep").map(|_| ()));
                    if ok {
                        check_ising(&g, &spec, NOFOLD, &mut c, &mut r);
                        cutoff_rule(&mut c, cut0, &g);
                    }
                    ok
                }
            };
            out.case(big, format!("{} round {} call {} {} {}", head, round, k, call, if alive { ctx(&g) } else { "-".into() }), c.done());
            if !alive {
                break 'outer;
            }
        }
    }
    out.max("longstring.ring.max_slots", catch(|| g.get_manager_ref().get_cutoff()).unwrap_or(0) as u64);
    out
}
/// temperature schedule on ONE sampler: a cold stretch (beta = 16..24, cutoff > 1024) followed by a hot one (beta = 0.5): the
/// cutoff never decreases and no operator is ever left beyond it (C12), the configuration stays consistent (C06)
fn sc_schedule(seed: u64, thorough: bool) -> Out {
    let mut out = Out::default();
    let mut r = SplitMix64::new(seed);
    let n = *r.pick(&[48usize, 64]);
    let edges: Vec<((usize, usize), f64)> = (0..n).map(|i| ((i, (i + 1) % n), if i % 2 == 0 { -1.0 } else { 0.5 })).collect();
    let spec = ISpec::new("chain", n, edges, 0.75, 0.0);
    let hb = r.chance(2, 3);
    let cold = *r.pick(&[16.0, 24.0]);
    let mut g = spec.build(n, vec![false; n], r.next());
    g.set_enable_heatbath(hb);
    let head = format!("longstring schedule {} heatbath={} beta {} then 0.5", spec.token(), hb as u8, cold);
    let (ncold, nhot) = if thorough { (150, 200) } else { (60, 60) };
    let mut max_cut = 0usize;
    for (phase, beta, steps) in [("cold", cold, ncold), ("hot", 0.5, nhot), ("cold again", cold, ncold / 3)] {
        for blk in 0..(steps + 9) / 10 {
            let mut c = Chk::new();
            let mut alive = true;
            for _ in 0..10 {
                let cut0 = g.get_cutoff();
                if c.call("timestep", || {
                    g.timestep(beta);
                })
                .is_none()
                {
                    alive = false;
                    break;
                }
                let _ = verif_log::take();
                check_ising(&g, &spec, FULL, &mut c, &mut r);
                cutoff_rule(&mut c, cut0, &g);
                max_cut = max_cut.max(g.get_cutoff());
            }
            out.case(max_cut > 1024, format!("{} {} block {} {}", head, phase, blk, if alive { ctx(&g) } else { "-".into() }), c.done());
            if !alive {
                return out;
            }
        }
    }
    out.max("longstring.schedule.max_cutoff", max_cut as u64);
    out
}
/// fully connected +-J model with unequal |J| on ~150 spins: every RVB region has all other spins on its boundary (> 128 world
/// lines in one proposal). RVB on, explicit sweeps between time steps, every call under the pool hook log.
fn sc_dense(seed: u64, thorough: bool) -> Out {
    let mut out = Out::default();
    let mut r = SplitMix64::new(seed);
    let n = 150 + r.below(12) as usize;
    let mut edges = vec![];
    for a in 0..n {
        for b in a + 1..n {
            let mag = r.range(10, 51) as f64 / 512.0;
            edges.push(((a, b), if r.coin() { mag } else { -mag }));
        }
    }
    let spec = ISpec::new("dense", n, edges, 1.0, 0.0);
    let beta = 1.0;
    let mut g = spec.build(n, vec![false; n], r.next());
    g.set_run_rvb(true);
    let head = format!("densegraph {} beta={} rvb=on", spec.token(), beta);
    let steps = if thorough { 120 } else { 60 };
    for step in 0..steps {
        let mut c = Chk::new();
        let cut0 = g.get_cutoff();
        pool_begin();
        let mut alive = c
            .call("timestep", || {
                g.timestep(beta);
            })
            .is_some();
        c.res(pool_end("timestep").map(|_| ()));
        if alive {
            check_ising(&g, &spec, FULL, &mut c, &mut r);
            cutoff_rule(&mut c, cut0, &g);
            for k in [Some(8), None, Some(24)] {
                alive = alive && rvb_sweep_checked(&mut g, &spec, k, if k.is_none() { FULL } else { LIGHT }, &mut c, &mut r, &mut out, "densegraph");
            }
        }
        out.case(true, format!("{} step {} timestep + single_rvb_sweep(8 / None / 24) {}", head, step, if alive { ctx(&g) } else { "-".into() }), c.done());
        if !alive {
            break;
        }
    }
    out
}

// ------------------------------------------------------------------------------------------------------------------
// longloops: directed loops on a long operator string (generic sampler, periodic XX chain)
// ------------------------------------------------------------------------------------------------------------------
thread_local! {
    static DRAWS: Cell<u64> = Cell::new(0);
}
/// SplitMix64 that counts the words it hands out (thread-wide): the number of draws of one `loop_update` is the number of
/// vertices its loop visited + 2 (start leg, direction) — the loop length without any hook
#[derive(Clone, Debug)]
struct CountRng(SplitMix64);
impl RngCore for CountRng {
    fn next_u32(&mut self) -> u32 {
        (self.next_u64() >> 32) as u32
    }
    fn next_u64(&mut self) -> u64 {
        DRAWS.with(|d| d.set(d.get() + 1));
        self.0.next()
    }
    fn fill_bytes(&mut self, dest: &mut [u8]) {
        for chunk in dest.chunks_mut(8) {
            let w = self.next_u64().to_le_bytes();
            chunk.copy_from_slice(&w[..chunk.len()]);
        }
    }
    fn try_fill_bytes(&mut self, dest: &mut [u8]) -> Result<(), rand::Error> {
        self.fill_bytes(dest);
        Ok(())
    }
}
type QX = Qmc<CountRng, FastOps>;
struct XXSpec {
    l: usize,
    c: f64,
    x: f64,
}
impl HamSpec for XXSpec {
    fn nbonds(&self) -> usize {
        self.l
    }
    fn edge(&self, b: usize) -> (SV, bool) {
        (smallvec![b, (b + 1) % self.l], false)
    }
    /// -H_b = c * identity + x (|01><10| + |10><01|)
    fn weight(&self, _b: usize, ins: &[bool], outs: &[bool]) -> f64 {
        if ins.len() != 2 || outs.len() != 2 {
            0.0
        } else if ins == outs {
            self.c
        } else if ins[0] != ins[1] && outs[0] == ins[1] && outs[1] == ins[0] {
            self.x
        } else {
            0.0
        }
    }
    fn bond_by_shape(&self, op: &SOp) -> Option<usize> {
        if op.vars.len() == 2 && op.vars[1] == (op.vars[0] + 1) % self.l {
            Some(op.vars[0])
        } else {
            None
        }
    }
}
fn check_xx(q: &QX, spec: &XXSpec, full: bool, fold: bool, c: &mut Chk, r: &mut SplitMix64) -> Scan {
    let m = q.get_manager_ref();
    let sc = scan(m);
    let st = q.state_ref();
    c.res(check_worldlines(m, &sc, st));
    let legal = check_legal(m, &sc, spec);
    let legal_ok = legal.is_ok();
    c.res(legal);
    if full && legal_ok {
        for op in sc.ops.iter() {
            let w = q.get_bonds()[op.bond].at(&op.ins, &op.outs).unwrap_or(f64::NAN);
            if w != spec.weight(op.bond, &op.ins, &op.outs) {
                c.ck(false, || format!("C04 bond {} at({}->{}) = {} expected {}", op.bond, bits(&op.ins), bits(&op.outs), w, spec.weight(op.bond, &op.ins, &op.outs)));
                break;
            }
        }
    }
    if full {
        let some: Vec<usize> = vec![0, r.below(spec.l as u64) as usize, spec.l - 1, spec.l, 65536];
        c.res(check_nav(m, &sc, spec.l, &some, r));
        c.res(check_counts_by_shape(&sc, spec, &|b| if b % 64 == 7 { q.get_bond_count(b) } else { sc.ops.iter().filter(|o| o.bond == b).count() }, "get_bond_count"));
        if QmcStepper::get_n(q) != sc.ops.len() {
            c.ck(false, || format!("C11 sampler get_n {} differs from the scan {}", QmcStepper::get_n(q), sc.ops.len()));
        }
    }
    if fold {
        c.res(check_fold(&sc, st, |f| q.imaginary_time_fold(|a, s| f(a, s), Vec::with_capacity(sc.cutoff))));
    }
    if q.get_cutoff() < sc.ops.len() {
        c.ck(false, || format!("C12 cutoff {} < n {}", q.get_cutoff(), sc.ops.len()));
    }
    sc
}
/// one chain: `steps` time steps assembled from the public single updates (diagonal_update, `loops` x loop_update,
/// flip_free_bits), consistency + legality after EVERY call
fn xx_chain(seed: u64, steps: usize, loops: usize, out: &mut Out) {
    let mut r = SplitMix64::new(seed);
    let l = 256usize;
    let beta = *r.pick(&[64.0, 60.0, 72.0]);
    let spec = XXSpec { l, c: 0.25, x: 0.5 };
    let mut q: QX = Qmc::new(l, CountRng(SplitMix64::new(r.next())), true);
    let mat = vec![spec.c, 0.0, 0.0, 0.0, 0.0, spec.c, spec.x, 0.0, 0.0, spec.x, spec.c, 0.0, 0.0, 0.0, 0.0, spec.c];
    for i in 0..l {
        if let Err(e) = q.make_interaction(mat.clone(), vec![i, (i + 1) % l]) {
            out.case(true, "longloops xx make_interaction".into(), Err(format!("C16 exchange term refused: {}", e)));
            return;
        }
    }
    let head = format!("longloops xx L={} beta={} c={} x={} loops_per_step={} chain={:x}", l, beta, spec.c, spec.x, loops, seed & 0xffff);
    let block = 20usize;
    let (mut sum_n, mut cnt_n) = (0u64, 0u64);
    let mut max_draws = 0u64;
    let mut tot_draws = 0u64;
    let mut nloops = 0u64;
    let mut step = 0usize;
    while step < steps {
        let mut c = Chk::new();
        let mut alive = true;
        let s0 = step;
        for _ in 0..block.min(steps - step) {
            step += 1;
            let cut0 = q.get_cutoff();
            let st0 = q.state_ref().to_vec();
            if c.call("diagonal_update", || q.diagonal_update(beta)).is_none() {
                alive = false;
                break;
            }
            c.ck(st0 == q.state_ref(), || "C06 a diagonal update changed the p = 0 state (the propagated state does not return to its start)".into());
            let full = step % 4 == 0;
            check_xx(&q, &spec, full, step % 8 == 0, &mut c, &mut r);
            let (cut, n) = (q.get_cutoff(), QmcStepper::get_n(&q));
            c.ck(cut >= cut0 && cut >= n + n / 2 + 1, || format!("C12 cutoff {} -> {} with n = {}", cut0, cut, n));
            for _ in 0..loops {
                let d0 = DRAWS.with(|d| d.get());
                if c.call("loop_update", || q.loop_update()).is_none() {
                    alive = false;
                    break;
                }
                let d = DRAWS.with(|d| d.get()) - d0;
                max_draws = max_draws.max(d);
                tot_draws += d;
                nloops += 1;
                // the loop update must end on a valid configuration of the same operators (C04's mechanism; the violated
                // invariant is named after the colon)
                let mut cl = Chk::new();
                let sc = check_xx(&q, &spec, false, false, &mut cl, &mut r);
                cl.ck(sc.ops.len() == n, || format!("C07 a loop update changed the number of operators {} -> {}", n, sc.ops.len()));
                for e in cl.errs {
                    c.res(Err(format!("C04 loop_update ({} rng draws) left an invalid configuration: {}", d, e)));
                }
            }
            if !alive {
                break;
            }
            if c.call("flip_free_bits", || q.flip_free_bits()).is_none() {
                alive = false;
                break;
            }
            let _ = verif_log::take();
            if step > steps / 2 {
                sum_n += QmcStepper::get_n(&q) as u64;
                cnt_n += 1;
            }
            if c.failed() {
                break;
            }
        }
        let n = if alive { QmcStepper::get_n(&q) } else { 0 };
        let failed = c.failed();
        out.case(n > 2000, format!("{} steps {}..{} n={} cutoff={}", head, s0, step, n, if alive { q.get_cutoff() } else { 0 }), c.done());
        if !alive || failed {
            // a broken string stays broken: one failing case per chain is enough
            break;
        }
    }
    out.max("longloops.max_loop_draws", max_draws);
    out.add("longloops.loops", nloops);
    out.add("longloops.loop_draws_total", tot_draws);
    if cnt_n > 0 {
        // -<n>/beta (offset 0); free-fermion ground state of the chain: -L (c + 1/pi) = -145.49
        out.add("longloops.minus_energy_x100_summed_over_chains", (100.0 * (sum_n as f64 / cnt_n as f64) / beta) as u64);
        out.add("longloops.chains_measured", 1);
        if cnt_n >= 500 {
            // C04 (energy clause), generous (5%; observed scatter over 18 chains <= 1.2%): beta >= 60 is the ground state up to ~0.03, finite-size corrections are O(1/L)
            let e = -(sum_n as f64 / cnt_n as f64) / beta;
            let exact = -(l as f64) * (spec.c + std::f64::consts::FRAC_1_PI);
            if std::env::var("BIGSCALE_TIMING").is_ok() {
                eprintln!("ENERGY chain {:x} beta {} E {:.3} exact {:.3} over {} steps", seed & 0xffff, beta, e, exact, cnt_n);
            }
            let mut c = Chk::new();
            c.ck((e - exact).abs() <= 0.05 * exact.abs(), || {
                format!("C04 reported energy -<n>/beta = {:.3} over {} steps, free-fermion value of the periodic XX chain {:.3} (tolerance 5%)", e, cnt_n, exact)
            });
            out.case(true, format!("{} energy over the last {} steps", head, cnt_n), c.done());
        }
    }
}
fn xx_sizes(thorough: bool) -> (usize, usize) {
    if thorough {
        (1700, 4)
    } else {
        (220, 6)
    }
}
fn sc_xx(seed: u64, thorough: bool, k: u64) -> Out {
    let mut out = Out::default();
    let (steps, loops) = xx_sizes(thorough);
    xx_chain(seed ^ k.wrapping_mul(0x9E37_79B9_7F4A_7C15), steps, loops, &mut out);
    out
}
fn sc_xx0(s: u64, t: bool) -> Out {
    sc_xx(s, t, 0)
}
fn sc_xx1(s: u64, t: bool) -> Out {
    sc_xx(s, t, 1)
}
fn sc_xx2(s: u64, t: bool) -> Out {
    sc_xx(s, t, 2)
}
fn sc_xx3(s: u64, t: bool) -> Out {
    sc_xx(s, t, 3)
}
fn sc_xx4(s: u64, t: bool) -> Out {
    sc_xx(s, t, 4)
}
fn sc_xx5(s: u64, t: bool) -> Out {
    sc_xx(s, t, 5)
}

// ------------------------------------------------------------------------------------------------------------------
// witness mode (never part of `all`, not wired): cost of one cluster update on N (almost) decoupled spins
// ------------------------------------------------------------------------------------------------------------------
/// `bigscale clusterquad`: chain of N spins with J = -2^-20 (no coupling operators in practice), Gamma = 0.3, beta = 1. Every
/// spin that carries operators is a component of its own in the cluster adjacency graph, and `flip_each_cluster_rng` finds
/// the next unvisited component by re-scanning the boundary table from slot 0 (`boundaries.iter().enumerate().find_map`),
/// so one cluster update costs O(components x slots): wall time x4 per doubling of N while the diagonal sweep doubles.
/// Timings are wall clock (not deterministic); the oracle column only reports consistency.
fn mode_clusterquad(seed: u64) {
    let mut r = SplitMix64::new(seed);
    for n in [10_000usize, 20_000, 40_000, 80_000] {
        let edges: Vec<((usize, usize), f64)> = (0..n).map(|i| ((i, (i + 1) % n), -(2f64.powi(-20)))).collect();
        let spec = ISpec::new("weakchain", n, edges, 0.3, 0.0);
        let mut g = spec.build(n, gen_state(&mut r, n), r.next());
        let mut c = Chk::new();
        g.single_diagonal_step(1.0);
        g.single_cluster_step();
        let t0 = Instant::now();
        g.single_diagonal_step(1.0);
        let td = t0.elapsed();
        let t1 = Instant::now();
        let k = g.single_cluster_step();
        let tc = t1.elapsed();
        check_ising(&g, &spec, LIGHT, &mut c, &mut r);
        stat(&format!("witness.clusterquad.N{}.operators", n), g.get_n());
        stat(&format!("witness.clusterquad.N{}.clusters", n), k);
        stat(&format!("witness.clusterquad.N{}.diagonal_step_us", n), td.as_micros());
        stat(&format!("witness.clusterquad.N{}.cluster_step_us", n), tc.as_micros());
        emit(true, &format!("clusterquad weakchain N={} n={} clusters={}", n, g.get_n(), k), "ok", Some(c.done()));
    }
}

// ------------------------------------------------------------------------------------------------------------------
// driver
// ------------------------------------------------------------------------------------------------------------------
type Scn = (&'static str, &'static str, fn(u64, bool) -> Out);
fn scenarios() -> Vec<Scn> {
    vec![
        ("manybonds", "full", sc_full400),
        ("manybonds", "lattice", sc_lattice130),
        ("manybonds", "full_ladder", sc_full_ladder),
        ("manyops", "onebond", sc_onebond),
        ("manyops", "onebond_ladder", sc_onebond_ladder),
        ("manyops", "beta_ladder", sc_beta_ladder),
        ("bigcluster", "ladder", sc_ladder),
        ("bigcluster", "ferro", sc_ferro32),
        ("longstring", "ring", sc_ring256),
        ("longstring", "schedule", sc_schedule),
        ("longstring", "ladder_cutoff", sc_ladder_cutoff),
        ("manyvars", "vars", sc_vars70k),
        ("manyvars", "terms", sc_terms70k),
        ("longrun", "tally", sc_tally),
        ("longrun", "autocorr", sc_autocorr),
        ("classicalring", "worm", sc_worm),
        ("densegraph", "dense", sc_dense),
        ("hubstar", "star", sc_star),
        ("longloops", "xx0", sc_xx0),
        ("longloops", "xx1", sc_xx1),
        ("longloops", "xx2", sc_xx2),
        ("longloops", "xx3", sc_xx3),
        ("longloops", "xx4", sc_xx4),
        ("longloops", "xx5", sc_xx5),
    ]
}
fn sub_seed(seed: u64, mode: &str, name: &str) -> u64 {
    let tag = mode.bytes().chain(name.bytes()).fold(0u64, |h, b| h.wrapping_mul(131).wrapping_add(b as u64));
    SplitMix64::new(seed.wrapping_mul(0x2545_F491_4F6C_DD1D) ^ tag.wrapping_mul(0x9E6C_63D0_676A_9A99)).next()
}
fn main() {
    quiet_panics();
    let a = args();
    let timing = std::env::var("BIGSCALE_TIMING").is_ok();
    if a.mode == "clusterquad" {
        mode_clusterquad(a.seed);
        return;
    }
    // `all` in the quick tier leaves `hubstar` out (its two cluster steps alone take ~10 s); `bigscale hubstar` runs it in any tier
    let sel: Vec<Scn> = scenarios()
        .into_iter()
        .filter(|(m, n, _)| (a.mode == "all" && (a.thorough || *m != "hubstar")) || a.mode == *m || a.mode == format!("{}.{}", m, n))
        .collect();
    if sel.is_empty() {
        eprintln!("unknown mode {}", a.mode);
        std::process::exit(2);
    }
    let t0 = Instant::now();
    let results: Vec<(Scn, Out, f64)> = std::thread::scope(|s| {
        let hs: Vec<_> = sel
            .iter()
            .map(|sc| {
                let (mode, name, f) = *sc;
                let seed = sub_seed(a.seed, mode, name);
                let thorough = a.thorough;
                s.spawn(move || {
                    let t = Instant::now();
                    let o = match catch(|| f(seed, thorough)) {
                        Ok(o) => o,
                        Err(e) => {
                            let mut o = Out::default();
                            o.case(true, format!("{} {} aborted", mode, name), Err(format!("the library panicked outside an individually guarded call: {}", clip(&e))));
                            o
                        }
                    };
                    (o, t.elapsed().as_secs_f64())
                })
            })
            .collect();
        hs.into_iter().zip(sel.iter()).map(|(h, sc)| {
            let (o, t) = h.join().expect("scenario thread");
            (*sc, o, t)
        }).collect()
    });
    let (mut ncases, mut nfail) = (0u64, 0u64);
    let mut stats: BTreeMap<String, u64> = BTreeMap::new();
    for ((mode, name, _), o, t) in results.iter() {
        for (nt, input, r) in o.cases.iter() {
            ncases += 1;
            if r.is_err() {
                nfail += 1;
            }
            emit(*nt, input, "ok", Some(r.clone()));
        }
        for (k, v) in o.stats.iter() {
            let e = stats.entry(format!("bigscale.{}", k)).or_insert(0);
            if k.contains(".max_") {
                *e = (*e).max(*v);
            } else {
                *e += *v;
            }
        }
        *stats.entry(format!("bigscale.scenarios.{}", mode)).or_insert(0) += 1;
        if timing {
            eprintln!("TIME {}.{} {:.2}s cases {}", mode, name, t, o.cases.len());
        }
    }
    for (k, v) in stats.iter() {
        stat(k, v);
    }
    stat("cases", ncases);
    stat("oracle_fail", nfail);
    if timing {
        eprintln!("TIME total {:.2}s", t0.elapsed().as_secs_f64());
    }
}
