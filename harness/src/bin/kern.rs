//! kern — model-independent stationarity oracle for the SSE samplers on tiny systems.
//!
//! For a tiny Hamiltonian and a FIXED cutoff L the exact one-step transition kernel of the REAL code
//! (`QmcIsingGraph::{single_diagonal_step, single_cluster_step, timestep, single_rvb_sweep}`,
//! `Qmc::{diagonal_update, loop_update, cluster_update, flip_free_bits, timestep}`) is measured by
//! exploring the tree of RNG draws with a scripted RNG: at every draw position the word space
//! [0, 2^64) is partitioned into maximal pieces on which the future behaviour of the real code is
//! identical; branch probabilities are piece lengths / 2^64 (rejection-sampling "retry" pieces are
//! renormalised away). No model of the algorithm is involved: the kind of a draw is never assumed,
//! only observed. The set of configurations is the breadth-first closure of a few seeds under the
//! measured kernels themselves, and on that closed set the oracle checks
//!     sum_c pi(c) K(c,c') = pi(c')      pi(c) = beta^n (L-n)!/L! * prod_ops <outs|M_b|ins>
//! (matrix elements taken from the real code), rows sum to 1, successors of legal configurations
//! are legal, detailed balance where the move is reversible, and K_step = K_diag * K_cluster ...
//! for the composed `timestep`.
//!
//! Modes: ising | heatbath | generic | rvb   (CASE lines: `kern <mode> <system> <kernel> | ok | <oracle>`);
//! `witness-loop-arity` (fixed input of the mixed-arity loop finding, ~3 min), `mcprobe` (debugging aid).
//! See /verif/design_notes/KernOracle.md.

use qmc::sse::fast_ops::*;
use qmc::sse::*;
use rand::{Error, RngCore};
use std::cell::RefCell;
use std::collections::{BTreeMap, HashMap, VecDeque};
use std::rc::Rc;
use vh::*;

// ------------------------------------------------------------------------------------------------
// scripted RNG living in a thread-local (so that samplers can own a zero-sized handle)
// ------------------------------------------------------------------------------------------------
struct Tl {
    script: Vec<u64>,
    pos: usize,
    fb: SplitMix64,
    budget: usize,
}
thread_local! {
    static TL: RefCell<Tl> = RefCell::new(Tl { script: vec![], pos: 0, fb: SplitMix64::new(0), budget: 1 << 20 });
}
const BUDGET_MSG: &str = "KERN-DRAW-BUDGET";

fn tl_reset(script: &[u64], fbseed: u64, budget: usize) {
    TL.with(|t| {
        let mut t = t.borrow_mut();
        t.script.clear();
        t.script.extend_from_slice(script);
        t.pos = 0;
        t.fb = SplitMix64::new(fbseed);
        t.budget = budget;
    })
}
fn tl_consumed() -> usize {
    TL.with(|t| t.borrow().pos)
}
fn tl_word() -> u64 {
    TL.with(|t| {
        let mut t = t.borrow_mut();
        if t.pos >= t.budget {
            drop(t);
            panic!("{}", BUDGET_MSG);
        }
        let w = if t.pos < t.script.len() { t.script[t.pos] } else { t.fb.next() };
        t.pos += 1;
        w
    })
}

#[derive(Clone, Copy, Debug, Default)]
struct KRng;
impl RngCore for KRng {
    fn next_u32(&mut self) -> u32 {
        (tl_word() >> 32) as u32
    }
    fn next_u64(&mut self) -> u64 {
        tl_word()
    }
    fn fill_bytes(&mut self, dest: &mut [u8]) {
        for chunk in dest.chunks_mut(8) {
            let w = tl_word().to_le_bytes();
            chunk.copy_from_slice(&w[..chunk.len()]);
        }
    }
    fn try_fill_bytes(&mut self, dest: &mut [u8]) -> Result<(), Error> {
        self.fill_bytes(dest);
        Ok(())
    }
}

// ------------------------------------------------------------------------------------------------
// configurations
// ------------------------------------------------------------------------------------------------
#[derive(Clone, PartialEq, Eq, Hash, Debug)]
struct OpR {
    bond: usize,
    vars: Vec<usize>,
    ins: Vec<bool>,
    outs: Vec<bool>,
    diag: bool,
    constant: bool,
}
#[derive(Clone, PartialEq, Eq, Hash, Debug)]
struct Cfg {
    state: Vec<bool>,
    slots: Vec<Option<OpR>>,
    bad: Option<String>,
    /// fingerprint of what the instrumented crate logged during the run (pool events, RVB proposal trace);
    /// 0 for a configuration as such. It only refines the partition of the draw space, never the kernel.
    fp: u64,
}
impl Cfg {
    fn empty(state: Vec<bool>, l: usize) -> Cfg {
        Cfg { state, slots: vec![None; l], bad: None, fp: 0 }
    }
    fn n(&self) -> usize {
        self.slots.iter().filter(|s| s.is_some()).count()
    }
    fn show(&self) -> String {
        if let Some(b) = &self.bad {
            return format!("<{}>", b);
        }
        let ops: Vec<String> = self
            .slots
            .iter()
            .enumerate()
            .filter_map(|(p, o)| {
                o.as_ref().map(|o| {
                    format!("{}@{};{};{};{};{};{}", p, o.bond, list(&o.vars), bits(&o.ins), bits(&o.outs), if o.diag { "D" } else { "O" }, o.constant as u8)
                })
            })
            .collect();
        format!("{}:L{}:{}", bits(&self.state), self.slots.len(), if ops.is_empty() { "-".to_string() } else { ops.join("+") })
    }
    /// world lines periodic and every op meets its inputs (independent of the library's verify())
    fn consistent(&self) -> bool {
        let mut s = self.state.clone();
        for o in self.slots.iter().flatten() {
            for (k, v) in o.vars.iter().enumerate() {
                if *v >= s.len() || s[*v] != o.ins[k] {
                    return false;
                }
            }
            for (k, v) in o.vars.iter().enumerate() {
                s[*v] = o.outs[k];
            }
        }
        s == self.state
    }
    fn fast_ops(&self) -> Vec<(usize, FastOp)> {
        self.slots
            .iter()
            .enumerate()
            .filter_map(|(p, o)| o.as_ref().map(|o| (p, to_fast_op(o))))
            .collect()
    }
}
fn to_fast_op(o: &OpR) -> FastOp {
    if o.diag {
        FastOp::diagonal(o.vars.clone(), o.bond, o.ins.clone(), o.constant)
    } else {
        FastOp::offdiagonal(o.vars.clone(), o.bond, o.ins.clone(), o.outs.clone(), o.constant)
    }
}
fn read_cfg(state: &[bool], m: &FastOps) -> Cfg {
    let slots = (0..m.get_cutoff())
        .map(|p| {
            m.get_pth(p).map(|op| OpR {
                bond: op.get_bond(),
                vars: op.get_vars().to_vec(),
                ins: op.get_inputs().to_vec(),
                outs: op.get_outputs().to_vec(),
                diag: op.is_diagonal(),
                constant: op.is_constant(),
            })
        })
        .collect();
    Cfg { state: state.to_vec(), slots, bad: None, fp: 0 }
}

#[derive(Default)]
struct Interner {
    map: HashMap<Cfg, u32>,
    cfgs: Vec<Cfg>,
    /// id of the same configuration without fingerprint
    canon: Vec<u32>,
}
impl Interner {
    fn id(&mut self, c: Cfg) -> u32 {
        if let Some(i) = self.map.get(&c) {
            return *i;
        }
        let i = self.cfgs.len() as u32;
        self.cfgs.push(c.clone());
        self.map.insert(c.clone(), i);
        self.canon.push(i);
        if c.fp != 0 {
            let mut plain = c;
            plain.fp = 0;
            let j = self.id(plain);
            self.canon[i as usize] = j;
        }
        i
    }
}

fn hash_str(h: &mut u64, s: &str) {
    for b in s.bytes() {
        *h = (*h ^ b as u64).wrapping_mul(0x0000_0100_0000_01B3);
    }
}

// ------------------------------------------------------------------------------------------------
// systems
// ------------------------------------------------------------------------------------------------
#[derive(Clone, Debug)]
struct KSpec {
    name: &'static str,
    /// detailed balance is expected to hold for this kernel
    db: bool,
    /// this kernel must equal the product of these kernels (indices), in this order
    compose: Option<Vec<usize>>,
    /// truncate draw-tree branches below this probability (0 = never); the truncated mass enters the tolerance
    eps: f64,
}

trait Sys {
    fn describe(&self) -> String;
    fn cutoff(&self) -> usize;
    fn beta(&self) -> f64;
    fn kernels(&self) -> Vec<KSpec>;
    /// run kernel `k` of the REAL code from configuration `c`; the RNG is the thread-local script
    fn run(&self, c: &Cfg, k: usize) -> Cfg;
    /// matrix element <outs|M_bond|ins> as the real code reports it
    fn element(&self, o: &OpR) -> f64;
    fn seeds(&self) -> Vec<Cfg>;
}

/// pi(c) * L!  = beta^n (L-n)! prod elements   (exact in f64 for dyadic inputs)
fn weight(sys: &dyn Sys, c: &Cfg) -> f64 {
    if c.bad.is_some() || c.slots.len() != sys.cutoff() || !c.consistent() {
        return 0.0;
    }
    let n = c.n();
    let l = c.slots.len();
    let mut w = 1.0;
    for o in c.slots.iter().flatten() {
        let e = sys.element(o);
        if !(e > 0.0) {
            return 0.0;
        }
        w *= e * sys.beta();
    }
    for k in 1..=(l - n) {
        w *= k as f64;
    }
    w
}

type G = DefaultQmcIsingGraph<KRng>;
type Q = DefaultQmc<KRng>;

#[derive(Clone, Debug)]
struct IsingSys {
    edges: Vec<((usize, usize), f64)>,
    nvars: usize,
    gamma: f64,
    h: f64,
    beta: f64,
    l: usize,
    heatbath: bool,
    rvb: bool,
    /// include the composed `timestep` kernel
    step: bool,
}
impl IsingSys {
    fn graph(&self, c: &Cfg) -> G {
        let mut g = G::new_with_rng(self.edges.clone(), self.gamma, self.h, self.l, KRng, Some(c.state.clone()));
        if self.heatbath {
            g.set_enable_heatbath(true);
        }
        let l = c.slots.len();
        if c.n() > 0 {
            let slots = &c.slots;
            g.get_manager_mut().mutate_ps(0, l, 0usize, |_, _, p| (Some(slots[p].as_ref().map(to_fast_op)), p + 1));
        } else {
            g.get_manager_mut().set_cutoff(l);
        }
        g
    }
}
impl Sys for IsingSys {
    fn describe(&self) -> String {
        let es: Vec<String> = self.edges.iter().map(|((a, b), j)| format!("{}:{}:{}", a, b, rat(*j))).collect();
        format!("e={} n={} g={} h={} b={} L={} hb={} rvb={}", es.join(","), self.nvars, rat(self.gamma), rat(self.h), rat(self.beta), self.l, self.heatbath as u8, self.rvb as u8)
    }
    fn cutoff(&self) -> usize {
        self.l
    }
    fn beta(&self) -> f64 {
        self.beta
    }
    fn kernels(&self) -> Vec<KSpec> {
        let mut v = vec![
            KSpec { name: "diag", db: self.l == 1, compose: None, eps: 0.0 },
            KSpec { name: "cluster", db: true, compose: None, eps: 0.0 },
        ];
        if self.step {
            v.push(KSpec { name: "step", db: false, compose: Some(vec![0, 1]), eps: 0.0 });
        }
        if self.rvb {
            v.push(KSpec { name: "rvb", db: false, compose: None, eps: 0.0 });
        }
        v
    }
    fn run(&self, c: &Cfg, k: usize) -> Cfg {
        let mut g = self.graph(c);
        match self.kernels()[k].name {
            "diag" => g.single_diagonal_step(self.beta),
            "cluster" => {
                g.single_cluster_step();
            }
            "step" => {
                g.timestep(self.beta);
            }
            "rvb" => {
                g.single_rvb_sweep(Some(1));
            }
            _ => unreachable!(),
        }
        let st = g.clone_state();
        read_cfg(&st, g.get_manager_ref())
    }
    fn element(&self, o: &OpR) -> f64 {
        // a throw-away graph only to obtain the real code's matrix elements
        let g = G::new_with_rng(self.edges.clone(), self.gamma, self.h, self.l, KRng, Some(vec![false; self.nvars]));
        let nb = self.edges.len() + 2 * self.nvars;
        if o.bond >= nb {
            return 0.0;
        }
        G::hamiltonian(&g.make_haminfo(), &o.vars, o.bond, &o.ins, &o.outs)
    }
    fn seeds(&self) -> Vec<Cfg> {
        vec![Cfg::empty(vec![false; self.nvars], self.l), Cfg::empty((0..self.nvars).map(|i| i % 2 == 0).collect(), self.l)]
    }
}

#[derive(Clone, Debug)]
struct Inter {
    diagonal: bool,
    mat: Vec<f64>,
    vars: Vec<usize>,
}
#[derive(Clone, Debug)]
struct GenSys {
    nvars: usize,
    inter: Vec<Inter>,
    beta: f64,
    l: usize,
    heatbath: bool,
    kern: Vec<KSpec>,
    loops_flag: bool,
}
impl GenSys {
    fn bare(&self, state: Vec<bool>) -> Q {
        let mut a = Q::new_with_state(self.nvars, KRng, state, self.loops_flag);
        for it in &self.inter {
            if it.diagonal {
                a.make_diagonal_interaction(it.mat.clone(), it.vars.clone()).unwrap();
            } else {
                a.make_interaction(it.mat.clone(), it.vars.clone()).unwrap();
            }
        }
        a.set_do_heatbath(self.heatbath);
        a
    }
    /// Install (state, operator string) into a `Qmc` through public API only: the manager is built with
    /// `FastOps::new_from_ops`, handed to a throw-away Ising sampler, converted with `into_qmc` and swapped in.
    fn qmc(&self, c: &Cfg) -> Q {
        let mut a = self.bare(c.state.clone());
        let mut m = FastOps::new_from_ops(self.nvars, c.fast_ops());
        m.set_cutoff(c.slots.len());
        let other = if self.nvars > 1 { self.nvars - 1 } else { 0 };
        let mut ig = G::new_with_rng(vec![((0, other), 1.0)], 1.0, 0.0, c.slots.len(), KRng, Some(c.state.clone()));
        if self.nvars == 1 {
            // the throw-away Ising sampler counts nvars = max index + 1 = 1
        }
        *ig.get_manager_mut() = m;
        let mut b: Q = ig.into_qmc();
        a.set_cutoff(1);
        a.swap_manager_and_state(&mut b);
        assert_eq!(a.get_cutoff(), c.slots.len());
        assert_eq!(a.get_manager_ref().get_cutoff(), c.slots.len());
        a
    }
}
impl Sys for GenSys {
    fn describe(&self) -> String {
        let is: Vec<String> = self.inter.iter().map(|i| format!("{}:{}:{}", if i.diagonal { "d" } else { "f" }, list(&i.vars), rats(&i.mat))).collect();
        format!("n={} H={} b={} L={} hb={} loops={}", self.nvars, is.join("!"), rat(self.beta), self.l, self.heatbath as u8, self.loops_flag as u8)
    }
    fn cutoff(&self) -> usize {
        self.l
    }
    fn beta(&self) -> f64 {
        self.beta
    }
    fn kernels(&self) -> Vec<KSpec> {
        self.kern.clone()
    }
    fn run(&self, c: &Cfg, k: usize) -> Cfg {
        let mut q = self.qmc(c);
        match self.kern[k].name {
            "diag" => q.diagonal_update(self.beta),
            "loop" => q.loop_update(),
            "cluster" => q.cluster_update().unwrap(),
            "free" => q.flip_free_bits(),
            "step" => {
                q.timestep(self.beta);
            }
            _ => unreachable!(),
        }
        let st = q.clone_state();
        read_cfg(&st, q.get_manager_ref())
    }
    fn element(&self, o: &OpR) -> f64 {
        let q = self.bare(vec![false; self.nvars]);
        if o.bond >= q.get_bonds().len() {
            return 0.0;
        }
        q.get_bonds()[o.bond].at(&o.ins, &o.outs).unwrap_or(0.0)
    }
    fn seeds(&self) -> Vec<Cfg> {
        vec![Cfg::empty(vec![false; self.nvars], self.l), Cfg::empty((0..self.nvars).map(|i| i % 2 == 0).collect(), self.l)]
    }
}

// ------------------------------------------------------------------------------------------------
// draw-tree exploration
// ------------------------------------------------------------------------------------------------
#[derive(Clone, Copy, PartialEq, Eq, Debug)]
struct Obs {
    out: u32,
    cons: u32,
}

enum Tree {
    Leaf(u32),
    Trunc,
    Node { ones: bool, pieces: Vec<Piece> },
}
struct Piece {
    start: u64,
    end: u128,
    rep: u64,
    prob: f64,
    retry: bool,
    child: Option<Rc<Tree>>,
}

const FB0: u64 = 0x5EED_0000_0000_0001;
const FB1: u64 = 0x0DDB_A11C_0FFE_E123;
/// behaviour of the real code under two fixed pseudo-random continuations
type Sig = [Obs; 2];
const GOFF: u64 = 0x0005_A5A5_A5A5_A000;
const KMAX: u32 = 10; // trailing-ones classes 0..KMAX-1 individually, >= KMAX as one tail class
const TWO64: f64 = 18446744073709551616.0;
const NRAND: u64 = 4; // random continuations per piece validation

#[derive(Default, Clone, Copy)]
struct Counters {
    runs: u64,
    nodes: u64,
    leaves: u64,
    splits: u64,
    bisections: u64,
    cache_hits: u64,
    merges: u64,
    ones_nodes: u64,
    retry_pieces: u64,
    mc_checks: u64,
    refinements: u64,
}

struct Ex<'a> {
    sys: &'a dyn Sys,
    cfg: Cfg,
    k: usize,
    intern: &'a mut Interner,
    cache: &'a mut BTreeMap<u64, u32>,
    ct: &'a mut Counters,
    eps: f64,
    trunc: f64,
    maxdepth: usize,
    budget: usize,
    /// explored subtrees by exact prefix of representative words (re-used when the row is re-explored after a refinement)
    memo: HashMap<Vec<u64>, Rc<Tree>>,
    /// pieces (node prefix, start, end) already validated against their subtree
    validated: std::collections::HashSet<(Vec<u64>, u64, u128)>,
    /// boundaries forced by counterexamples: node prefix -> words at which a new piece must start
    hints: HashMap<Vec<u64>, Vec<u64>>,
    /// child prefixes that must be explored themselves (never merged with a sibling)
    nomerge: std::collections::HashSet<Vec<u64>>,
    /// nodes explored for this row since the last reset / limit (only enforced for truncated kernels)
    row_nodes: u64,
    row_limit: u64,
    /// wall-clock limit for the whole system (exceeding it makes the system abstain)
    deadline: std::time::Instant,
}
const ROW_BUDGET_MSG: &str = "row node budget";

struct Counterexample {
    words: Vec<u64>,
    seed: u64,
}

fn ones_rep(high: u64, k: u32) -> u64 {
    if k >= 64 {
        return u64::MAX;
    }
    let mask_low = if k == 63 { u64::MAX >> 1 } else { (1u64 << k) - 1 };
    let clear = if k == 63 { u64::MAX } else { (1u64 << (k + 1)) - 1 };
    (high & !clear) | mask_low
}

impl<'a> Ex<'a> {
    fn obs_fb(&mut self, script: &[u64], fb: u64) -> Obs {
        self.ct.runs += 1;
        tl_reset(script, fb, self.budget);
        let sys = self.sys;
        let cfg = &self.cfg;
        let k = self.k;
        let r = catch(|| sys.run(cfg, k));
        let cons = tl_consumed() as u32;
        // what the instrumented crate logged (also keeps these logs from growing)
        let mut fp: u64 = 0xCBF2_9CE4_8422_2325;
        for ev in qmc::util::allocator::verif_log::take() {
            hash_str(&mut fp, ev.0);
            fp = (fp ^ (ev.1 as u8 as u64)).wrapping_mul(0x0000_0100_0000_01B3);
        }
        for t in qmc::sse::qmc_traits::rvb::verif_hooks::take_trace() {
            hash_str(&mut fp, &format!("{:?}", t));
        }
        if fp == 0 {
            fp = 1;
        }
        let c = match r {
            Ok(mut c) => {
                c.fp = fp;
                c
            }
            Err(msg) => Cfg { state: vec![], slots: vec![], bad: Some(if msg.contains(BUDGET_MSG) { "DIVERGED".to_string() } else { format!("PANIC {}", msg) }), fp: 0 },
        };
        Obs { out: self.intern.id(c), cons }
    }
    fn obs(&mut self, script: &[u64]) -> Obs {
        self.obs_fb(script, FB0)
    }
    fn sig(&mut self, pre: &mut Vec<u64>, w: u64) -> Sig {
        pre.push(w);
        let o = [self.obs_fb(pre, FB0), self.obs_fb(pre, FB1)];
        pre.pop();
        o
    }
    /// is `so` what discarding the word and drawing again would give?
    fn looks_retry(so: &Sig, base: &Sig) -> bool {
        (0..2).all(|k| so[k].out == base[k].out && so[k].cons == base[k].cons + 1)
    }
    /// the word `w` at this position is ignored whatever the next word is
    fn retry_word(&mut self, pre: &mut Vec<u64>, w: u64, base: &Sig, reps: &[u64]) -> bool {
        let so = self.sig(pre, w);
        if !Self::looks_retry(&so, base) {
            return false;
        }
        let mut tested = 0;
        for r in reps.iter() {
            pre.push(w);
            let with = self.sig(pre, *r);
            pre.pop();
            let without = self.sig(pre, *r);
            if !Self::looks_retry(&with, &without) {
                return false;
            }
            tested += 1;
            if tested >= 4 {
                break;
            }
        }
        tested > 0
    }

    fn note_boundary(&mut self, b: u64) {
        *self.cache.entry(b).or_insert(0) += 1;
    }

    /// all points in (lo, hi] at which the behaviour changes (as far as sampled), ascending
    fn breaks(&mut self, pre: &mut Vec<u64>, lo: u64, olo: Sig, hi: u64, ohi: Sig, out: &mut Vec<(u64, Sig)>, use_cache: bool) -> Result<(), String> {
        if olo == ohi {
            return Ok(());
        }
        if out.len() > 96 {
            return Err(format!("draw {}: more than 96 behaviour changes", pre.len()));
        }
        if hi - lo == 1 {
            out.push((hi, ohi));
            self.note_boundary(hi);
            return Ok(());
        }
        if use_cache {
            let mut cands: Vec<(u32, u64)> = self.cache.range(lo + 1..=hi).map(|(b, h)| (*h, *b)).collect();
            cands.sort_by(|a, b| b.0.cmp(&a.0));
            cands.truncate(6);
            for (_, c) in cands {
                let a = if c - 1 == lo { olo } else { self.sig(pre, c - 1) };
                let b = if c == hi { ohi } else { self.sig(pre, c) };
                if a != b {
                    self.ct.cache_hits += 1;
                    self.breaks(pre, lo, olo, c - 1, a, out, true)?;
                    out.push((c, b));
                    self.note_boundary(c);
                    self.breaks(pre, c, b, hi, ohi, out, true)?;
                    return Ok(());
                }
            }
            self.ct.bisections += 1;
        }
        let mid = lo + (hi - lo) / 2;
        let om = self.sig(pre, mid);
        self.breaks(pre, lo, olo, mid, om, out, false)?;
        self.breaks(pre, mid, om, hi, ohi, out, false)
    }

    /// (relative path of representative words, outcome) of every completed leaf below `t`
    fn leaves_of(t: &Tree, path: &mut Vec<u64>, out: &mut Vec<(Vec<u64>, u32)>) {
        match t {
            Tree::Leaf(o) => out.push((path.clone(), *o)),
            Tree::Trunc => {}
            Tree::Node { pieces, .. } => {
                for p in pieces {
                    if let Some(ch) = &p.child {
                        path.push(p.rep);
                        Self::leaves_of(ch, path, out);
                        path.pop();
                    }
                }
            }
        }
    }

    /// does the real code, with word `w` at this position, behave as the explored subtree says on every leaf?
    /// returns the first leaf (index) on which it does not
    fn disagrees(&mut self, pre: &mut Vec<u64>, w: u64, leaves: &[(Vec<u64>, u32)]) -> Option<usize> {
        let d = pre.len();
        for (i, (path, out)) in leaves.iter().enumerate() {
            pre.push(w);
            pre.extend_from_slice(path);
            let o = self.obs(pre);
            pre.truncate(d);
            if o.out != *out || o.cons as usize != d + 1 + path.len() {
                return Some(i);
            }
        }
        None
    }

    fn explore(&mut self, pre: &mut Vec<u64>, w: f64) -> Result<Rc<Tree>, String> {
        if let Some(t) = self.memo.get(pre.as_slice()) {
            return Ok(t.clone());
        }
        let t = self.explore_inner(pre, w)?;
        self.memo.insert(pre.clone(), t.clone());
        Ok(t)
    }

    fn explore_inner(&mut self, pre: &mut Vec<u64>, w: f64) -> Result<Rc<Tree>, String> {
        self.ct.nodes += 1;
        self.row_nodes += 1;
        if self.row_nodes > self.row_limit {
            return Err(ROW_BUDGET_MSG.to_string());
        }
        if self.ct.nodes % 64 == 0 && std::time::Instant::now() > self.deadline {
            return Err("time budget of the system exhausted".to_string());
        }
        let base0 = self.obs(pre);
        let d = pre.len();
        if (base0.cons as usize) == d {
            self.ct.leaves += 1;
            return Ok(Rc::new(Tree::Leaf(base0.out)));
        }
        if (base0.cons as usize) < d {
            return Err(format!("only {} of {} scripted words were requested", base0.cons, d));
        }
        let base: Sig = [base0, self.obs_fb(pre, FB1)];
        if w < self.eps {
            return Ok(Rc::new(Tree::Trunc));
        }
        if d >= self.maxdepth {
            return Err(format!("draw tree deeper than {}", self.maxdepth));
        }
        // grid of probe words
        let mut pts: Vec<u64> = vec![0];
        pts.extend((0..16u64).map(|j| (j << 60) | GOFF));
        pts.push(u64::MAX);
        let sg: Vec<Sig> = pts.clone().iter().map(|p| self.sig(pre, *p)).collect();
        // does the behaviour depend on the low bits of the word (next_u64().trailing_ones())?
        let g3 = pts[4];
        let low1 = self.sig(pre, g3 | 1);
        let low12 = self.sig(pre, g3 | 0xFFF);
        if low1 != sg[4] || low12 != sg[4] {
            return self.explore_ones(pre, w, base);
        }
        let mut starts: Vec<(u64, Sig)> = vec![(0, sg[0])];
        for i in 0..pts.len() - 1 {
            self.breaks(pre, pts[i], sg[i], pts[i + 1], sg[i + 1], &mut starts, true)?;
        }
        // boundaries forced by counterexamples
        let forced: Vec<u64> = self.hints.get(pre.as_slice()).cloned().unwrap_or_default();
        let has_hints = !forced.is_empty();
        for b in forced {
            if !starts.iter().any(|x| x.0 == b) {
                let so = self.sig(pre, b);
                starts.push((b, so));
            }
        }
        starts.sort_by(|a, b| a.0.cmp(&b.0));
        // work list of candidate pieces
        let mut todo: VecDeque<(u64, u128, Sig)> = VecDeque::new();
        for i in 0..starts.len() {
            let end: u128 = if i + 1 < starts.len() { starts[i + 1].0 as u128 } else { 1u128 << 64 };
            todo.push_back((starts[i].0, end, starts[i].1));
        }
        let mut done: Vec<(u64, u128, Sig, bool, Option<Rc<Tree>>)> = vec![];
        let mut splits = 0;
        // candidate retry pieces (the word seems to be discarded and drawn again) are decided after the others
        let mut cands: VecDeque<(u64, u128, Sig)> = VecDeque::new();
        let mut force_normal: Vec<u64> = vec![];
        loop {
            while let Some((s, e, so)) = todo.pop_front() {
                if Self::looks_retry(&so, &base) && !force_normal.contains(&s) {
                    cands.push_back((s, e, so));
                    continue;
                }
                let measure = (e - s as u128) as f64 / TWO64;
                let last = (e - 1) as u64;
                let mid = s + ((e - s as u128) / 2) as u64;
                // merge with an explored sibling that behaves identically?
                let mut child: Option<Rc<Tree>> = None;
                let mut child_pre = pre.clone();
                child_pre.push(s);
                let may_merge = !has_hints && !self.nomerge.contains(&child_pre) && !self.memo.contains_key(&child_pre);
                let sib: Option<Rc<Tree>> = if may_merge { done.iter().find(|x| !x.3 && x.2 == so).and_then(|x| x.4.clone()) } else { None };
                if let Some(t) = sib {
                    let mut lv = vec![];
                    Self::leaves_of(&t, &mut vec![], &mut lv);
                    if !lv.is_empty() && lv.len() <= 256 && self.disagrees(pre, s, &lv).is_none() && self.disagrees(pre, last, &lv).is_none() && self.disagrees(pre, mid, &lv).is_none() {
                        self.ct.merges += 1;
                        child = Some(t);
                    }
                }
                if let Some(t) = child {
                    done.push((s, e, so, false, Some(t)));
                    continue;
                }
                pre.push(s);
                let r = self.explore(pre, w * measure);
                pre.pop();
                let t = r?;
                // validate the piece against its own subtree at the far end and in the middle
                let mut lv = vec![];
                Self::leaves_of(&t, &mut vec![], &mut lv);
                let mut end = e;
                loop {
                    if self.validated.contains(&(pre.clone(), s, end)) {
                        break;
                    }
                    let last = (end - 1) as u64;
                    let mid = s + ((end - s as u128) / 2) as u64;
                    let mut bad: Option<(u64, usize)> = None;
                    // far end, middle, and (for small subtrees) the probe grid inside the piece: guards against
                    // a hidden stretch of different behaviour whose two continuations look alike
                    let mut tws: Vec<u64> = vec![last, mid];
                    let extra = (240 / lv.len().max(1)).min(6);
                    let inside: Vec<u64> = pts.iter().cloned().filter(|g| *g > s && (*g as u128) < end).collect();
                    if !inside.is_empty() && extra > 0 {
                        let stride = (inside.len() + extra - 1) / extra;
                        tws.extend(inside.iter().step_by(stride.max(1)).cloned());
                    }
                    for tw in tws.iter().cloned() {
                        if tw == s {
                            continue;
                        }
                        if let Some(i) = self.disagrees(pre, tw, &lv) {
                            bad = Some((tw, i));
                            break;
                        }
                    }
                    // joint dependence on later words: the far end and the middle must also behave like the
                    // representative under random continuations (not only under the representative paths)
                    let mut bad_rand: Option<(u64, u64)> = None;
                    if bad.is_none() {
                        'outer: for c in 0..NRAND {
                            let fb = 0x7A11_0000 + 977 * c + 31 * d as u64;
                            pre.push(s);
                            let want = self.obs_fb(pre, fb);
                            pre.pop();
                            for tw in [last, mid] {
                                if tw == s {
                                    continue;
                                }
                                pre.push(tw);
                                let got = self.obs_fb(pre, fb);
                                pre.pop();
                                if got != want {
                                    bad_rand = Some((tw, fb));
                                    break 'outer;
                                }
                            }
                        }
                    }
                    if let Some((tw, fb)) = bad_rand {
                        splits += 1;
                        self.ct.splits += 1;
                        if splits > 64 {
                            return Err(format!("draw {}: more than 64 piece splits", d));
                        }
                        pre.push(s);
                        let want = self.obs_fb(pre, fb);
                        pre.pop();
                        let (mut lo, mut hi) = (s, tw);
                        while hi - lo > 1 {
                            let m = lo + (hi - lo) / 2;
                            pre.push(m);
                            let got = self.obs_fb(pre, fb);
                            pre.pop();
                            if got == want {
                                lo = m
                            } else {
                                hi = m
                            }
                        }
                        self.note_boundary(hi);
                        let so2 = self.sig(pre, hi);
                        todo.push_front((hi, end, so2));
                        end = hi as u128;
                        continue;
                    }
                    match bad {
                        None => break,
                        Some((tw, i)) => {
                            splits += 1;
                            self.ct.splits += 1;
                            if splits > 64 {
                                return Err(format!("draw {}: more than 64 piece splits", d));
                            }
                            let one = vec![lv[i].clone()];
                            let (mut lo, mut hi) = (s, tw); // agrees at lo, disagrees at hi
                            while hi - lo > 1 {
                                let m = lo + (hi - lo) / 2;
                                if self.disagrees(pre, m, &one).is_none() {
                                    lo = m
                                } else {
                                    hi = m
                                }
                            }
                            self.note_boundary(hi);
                            let so2 = self.sig(pre, hi);
                            todo.push_front((hi, end, so2));
                            end = hi as u128;
                        }
                    }
                }
                self.validated.insert((pre.clone(), s, end));
                done.push((s, end, so, false, Some(t)));
            }
            // decide the candidates: a retry word followed by ANY explored path of this node must end where that path ends
            let (s, e, so) = match cands.pop_front() {
                None => break,
                Some(c) => c,
            };
            let mut node_leaves: Vec<(Vec<u64>, u32)> = vec![];
            for p in done.iter().filter(|p| !p.3) {
                let mut lv = vec![];
                Self::leaves_of(p.4.as_ref().unwrap(), &mut vec![p.0], &mut lv);
                node_leaves.extend(lv);
            }
            if node_leaves.is_empty() {
                // nothing to compare with: explore it as an ordinary piece
                force_normal.push(s);
                todo.push_back((s, e, so));
                continue;
            }
            let span = e - s as u128;
            let probes: Vec<u64> = [0u128, span - 1, span / 2, span / 4, span / 2 + span / 4].iter().map(|o| (s as u128 + o) as u64).collect();
            let mut verdict_retry = true;
            for (i, wd) in probes.iter().enumerate() {
                if i > 0 && *wd == s {
                    continue;
                }
                // all leaves at the two ends and in the middle, the two continuations elsewhere
                // representative: up to 64 of the node's leaves; far end and middle: up to 16; elsewhere the two continuations
                let cap = if i == 0 { 64 } else { 16 };
                let stride = (node_leaves.len() + cap - 1) / cap;
                let subset: Vec<(Vec<u64>, u32)> = node_leaves.iter().step_by(stride.max(1)).cloned().collect();
                let mut bad = if i < 3 {
                    self.disagrees(pre, *wd, &subset).map(|x| x * stride.max(1))
                } else if Self::looks_retry(&self.sig(pre, *wd), &base) {
                    None
                } else {
                    Some(usize::MAX)
                };
                if bad.is_none() && i < 3 {
                    // a true retry can be repeated any number of times (a loop with a hidden counter cannot)
                    for reps in [2usize, 13] {
                        for (li, (path, out)) in node_leaves.iter().enumerate().take(3) {
                            for _ in 0..reps {
                                pre.push(*wd);
                            }
                            pre.extend_from_slice(path);
                            let o = self.obs(pre);
                            pre.truncate(d);
                            if o.out != *out || o.cons as usize != d + reps + path.len() {
                                bad = Some(li);
                            }
                        }
                    }
                    if bad.is_some() && i > 0 {
                        return Err(format!("draw {}: a piece that discards single words does not discard repeated ones", d));
                    }
                }
                if let Some(li) = bad {
                    verdict_retry = false;
                    if i == 0 {
                        force_normal.push(s);
                        todo.push_back((s, e, so));
                    } else {
                        // not homogeneous: cut where the behaviour stops being "retry"
                        splits += 1;
                        self.ct.splits += 1;
                        if splits > 64 {
                            return Err(format!("draw {}: more than 64 piece splits", d));
                        }
                        let one: Vec<(Vec<u64>, u32)> = if li == usize::MAX { vec![] } else { vec![node_leaves[li].clone()] };
                        let (mut lo, mut hi) = (s, *wd);
                        while hi - lo > 1 {
                            let m = lo + (hi - lo) / 2;
                            let ok = if one.is_empty() { Self::looks_retry(&self.sig(pre, m), &base) } else { self.disagrees(pre, m, &one).is_none() };
                            if ok {
                                lo = m
                            } else {
                                hi = m
                            }
                        }
                        self.note_boundary(hi);
                        let so2 = self.sig(pre, hi);
                        cands.push_front((s, hi as u128, so));
                        todo.push_back((hi, e, so2));
                    }
                    break;
                }
            }
            if verdict_retry {
                self.ct.retry_pieces += 1;
                done.push((s, e, so, true, None));
            }
        }
        done.sort_by(|a, b| a.0.cmp(&b.0));
        // the pieces must tile [0, 2^64)
        let mut at: u128 = 0;
        for p in &done {
            if p.0 as u128 != at {
                return Err(format!("draw {}: pieces do not tile the word space", d));
            }
            at = p.1;
        }
        if at != 1u128 << 64 {
            return Err(format!("draw {}: pieces do not tile the word space", d));
        }
        let rho: f64 = done.iter().filter(|p| p.3).map(|p| (p.1 - p.0 as u128) as f64 / TWO64).sum();
        if rho > 0.75 {
            return Err(format!("draw {}: retry mass {}", d, rho));
        }
        let pieces = done
            .into_iter()
            .map(|(s, e, _, retry, child)| Piece { start: s, end: e, rep: s, prob: if retry { 0.0 } else { ((e - s as u128) as f64 / TWO64) / (1.0 - rho) }, retry, child })
            .collect();
        Ok(Rc::new(Tree::Node { ones: false, pieces }))
    }

    /// a draw whose effect depends on the number of trailing one bits of the word
    fn explore_ones(&mut self, pre: &mut Vec<u64>, w: f64, _base: Sig) -> Result<Rc<Tree>, String> {
        self.ct.ones_nodes += 1;
        let d = pre.len();
        let highs: [u64; 4] = [0x5A5A_5A5A_5A5A_5A5A, 0xC3C3_0F0F_3C3C_F0F0, 0x0123_4567_89AB_CDEF, 0xFEDC_BA98_7654_3210];
        let mut pieces: Vec<Piece> = vec![];
        let mut sigs: Vec<Sig> = vec![];
        for k in 0..=KMAX {
            let rep = ones_rep(highs[0], k);
            let so = self.sig(pre, rep);
            // class membership must not depend on the high bits
            let mut others: Vec<u64> = highs[1..].iter().map(|h| ones_rep(*h, k)).collect();
            if k < 3 {
                others.extend((0..16u64).map(|j| ones_rep((j << 60) | GOFF, k)));
            }
            if k == KMAX {
                others.extend([KMAX + 1, KMAX + 2, 20, 33, 47, 63, 64].iter().map(|kk| ones_rep(highs[1], *kk)));
            }
            for o in &others {
                if self.sig(pre, *o) != so {
                    return Err(format!("draw {}: low-bit dependent draw is not a function of trailing ones (class {})", d, k));
                }
            }
            let prob = if k < KMAX { 0.5f64.powi(k as i32 + 1) } else { 0.5f64.powi(KMAX as i32) };
            // merge with an explored class that behaves identically
            let mut child: Option<Rc<Tree>> = None;
            let mut child_pre = pre.clone();
            child_pre.push(rep);
            let may_merge = !self.nomerge.contains(&child_pre) && !self.memo.contains_key(&child_pre);
            for (j, sj) in sigs.iter().enumerate() {
                if *sj == so && may_merge {
                    let t = pieces[j].child.clone().unwrap();
                    let mut lv = vec![];
                    Self::leaves_of(&t, &mut vec![], &mut lv);
                    let mut ok = !lv.is_empty() && self.disagrees(pre, rep, &lv).is_none();
                    for o in others.iter().take(if k == KMAX { others.len() } else { 2 }) {
                        ok = ok && self.disagrees(pre, *o, &lv).is_none();
                    }
                    if ok {
                        self.ct.merges += 1;
                        child = Some(t);
                        break;
                    }
                }
            }
            let t = match child {
                Some(t) => t,
                None => {
                    pre.push(rep);
                    let r = self.explore(pre, w * prob);
                    pre.pop();
                    let t = r?;
                    let mut lv = vec![];
                    Self::leaves_of(&t, &mut vec![], &mut lv);
                    for o in others.iter().take(if k == KMAX { others.len() } else { 2 }) {
                        if self.disagrees(pre, *o, &lv).is_some() {
                            return Err(format!("draw {}: trailing-ones class {} is not homogeneous", d, k));
                        }
                    }
                    t
                }
            };
            sigs.push(so);
            pieces.push(Piece { start: k as u64, end: 0, rep, prob, retry: false, child: Some(t) });
        }
        Ok(Rc::new(Tree::Node { ones: true, pieces }))
    }

    /// Monte-Carlo validation of the finished tree: random word streams must end in the leaf the tree predicts.
    /// A failing stream is returned as a counterexample for `refine`.
    fn mc_validate(&mut self, tree: &Rc<Tree>, samples: u64, seed: u64) -> Result<(), (String, Option<Counterexample>)> {
        for i in 0..samples {
            let fb = seed.wrapping_mul(0x9E37_79B9).wrapping_add(i).wrapping_add(0xABCD_0000);
            let o = self.obs_fb(&[], fb);
            self.ct.mc_checks += 1;
            let mut stream = SplitMix64::new(fb);
            let mut used = 0u32;
            let mut words: Vec<u64> = vec![];
            let mut t: &Tree = tree;
            loop {
                match t {
                    Tree::Leaf(out) => {
                        if *out != o.out || used != o.cons {
                            let why = format!("random stream {}: tree predicts outcome {} after {} draws, real code gave {} after {}", i, out, used, o.out, o.cons);
                            return Err((why, Some(Counterexample { words, seed: fb })));
                        }
                        break;
                    }
                    Tree::Trunc => break,
                    Tree::Node { ones, pieces } => {
                        let wd = stream.next();
                        words.push(wd);
                        used += 1;
                        if used > 4096 {
                            return Err(("random stream: walk too long".into(), None));
                        }
                        let p = if *ones {
                            let k = (wd.trailing_ones()).min(KMAX);
                            &pieces[k as usize]
                        } else {
                            match pieces.iter().find(|p| (p.start as u128) <= wd as u128 && (wd as u128) < p.end) {
                                Some(p) => p,
                                None => return Err(("random stream: no piece".into(), None)),
                            }
                        };
                        if p.retry {
                            continue;
                        }
                        t = p.child.as_ref().unwrap();
                    }
                }
            }
        }
        Ok(())
    }

    /// Counterexample-guided refinement. The stream `cx.words` ends, according to the tree, in a leaf whose claim the
    /// real code does not meet. Replacing the words one position after the other (from the front) by the representatives of
    /// their pieces must at some position turn the disagreement into agreement: there, with an identical continuation, a
    /// word and the representative of its piece behave differently, so that piece is cut (by bisection) and the row is
    /// explored again (subtrees that are not on the path are re-used).
    fn refine(&mut self, tree: &Rc<Tree>, cx: &Counterexample) -> Result<(), String> {
        // walk again, collecting (node prefix, piece start, word) for the non-retried words
        let mut t: &Tree = tree;
        let mut prefix: Vec<u64> = vec![];
        let mut levels: Vec<(Vec<u64>, u64, u64, bool)> = vec![]; // (node prefix, representative, word, ones-node)
        let mut kept: Vec<u64> = vec![];
        let mut it = cx.words.iter();
        let claim_out;
        loop {
            match t {
                Tree::Leaf(out) => {
                    claim_out = *out;
                    break;
                }
                Tree::Trunc => return Err("counterexample ends in a truncated branch".into()),
                Tree::Node { ones, pieces } => {
                    let wd = match it.next() {
                        Some(w) => *w,
                        None => return Err("counterexample shorter than the tree path".into()),
                    };
                    let p = if *ones { &pieces[(wd.trailing_ones()).min(KMAX) as usize] } else { pieces.iter().find(|p| (p.start as u128) <= wd as u128 && (wd as u128) < p.end).unwrap() };
                    if p.retry {
                        continue;
                    }
                    levels.push((prefix.clone(), p.rep, wd, *ones));
                    kept.push(wd);
                    prefix.push(p.rep);
                    t = p.child.as_ref().unwrap();
                }
            }
        }
        let k = levels.len();
        // continuation after the path: the rest of the same stream
        let mut stream = SplitMix64::new(cx.seed);
        for _ in 0..cx.words.len() {
            stream.next();
        }
        let rest: Vec<u64> = (0..256).map(|_| stream.next()).collect();
        let claim = (claim_out, k as u32);
        let run_h = |me: &mut Self, j: usize, wj: Option<u64>| -> (u32, u32) {
            // representatives for positions < j, the stream's words from j on (position j optionally replaced)
            let mut sc: Vec<u64> = levels[..j].iter().map(|l| l.1).collect();
            for (i, w) in kept.iter().enumerate().skip(j) {
                sc.push(if i == j { wj.unwrap_or(*w) } else { *w });
            }
            sc.extend_from_slice(&rest);
            let o = me.obs_fb(&sc, 1);
            (o.out, o.cons)
        };
        if run_h(self, k, None) != claim {
            return Err("the path of representatives does not reproduce the leaf".into());
        }
        if run_h(self, 0, None) == claim {
            return Err("the counterexample disappears when the discarded words are removed (a retry piece is wrong)".into());
        }
        // largest j whose hybrid is bad; then hybrid j+1 is good
        let mut j = k - 1;
        loop {
            if run_h(self, j, None) != claim {
                break;
            }
            if j == 0 {
                return Err("no position explains the counterexample".into());
            }
            j -= 1;
        }
        let (node_pre, rep, wd, ones) = levels[j].clone();
        if ones {
            return Err(format!("draw {}: words with the same number of trailing ones behave differently", j));
        }
        let (mut lo, mut hi) = (rep, wd); // good at lo (hybrid j+1), bad at hi (hybrid j)
        while hi - lo > 1 {
            let m = lo + (hi - lo) / 2;
            if run_h(self, j, Some(m)) == claim {
                lo = m
            } else {
                hi = m
            }
        }
        self.note_boundary(hi);
        self.hints.entry(node_pre.clone()).or_default().push(hi);
        // forget everything on the path to that node, and make sure the path is explored under its own prefix
        for len in 0..=node_pre.len() {
            self.memo.remove(&node_pre[..len]);
            if len > 0 {
                self.nomerge.insert(node_pre[..len].to_vec());
            }
        }
        let stale: Vec<(Vec<u64>, u64, u128)> = self.validated.iter().filter(|v| v.0.len() <= node_pre.len() && node_pre.starts_with(&v.0)).cloned().collect();
        for v in stale {
            if v.0 == node_pre {
                self.validated.remove(&v);
            }
        }
        Ok(())
    }
}

/// probability mass of the truncated branches (normalised piece probabilities)
fn trunc_of(t: &Tree, p: f64) -> f64 {
    match t {
        Tree::Leaf(_) => 0.0,
        Tree::Trunc => p,
        Tree::Node { pieces, .. } => pieces.iter().map(|pc| pc.child.as_ref().map(|ch| trunc_of(ch, p * pc.prob)).unwrap_or(0.0)).sum(),
    }
}

fn row_of(t: &Tree, p: f64, canon: &[u32], row: &mut HashMap<u32, f64>) {
    match t {
        Tree::Leaf(o) => *row.entry(canon[*o as usize]).or_insert(0.0) += p,
        Tree::Trunc => {}
        Tree::Node { pieces, .. } => {
            for pc in pieces {
                if let Some(ch) = &pc.child {
                    row_of(ch, p * pc.prob, canon, row);
                }
            }
        }
    }
}

// ------------------------------------------------------------------------------------------------
// closure + oracle
// ------------------------------------------------------------------------------------------------
struct Measured {
    /// ids (into the interner) of the configurations of the closed set, in discovery order
    ids: Vec<u32>,
    /// rows[k][i] = sparse row of kernel k from configuration ids[i]
    rows: Vec<Vec<HashMap<u32, f64>>>,
    trunc: Vec<Vec<f64>>,
    ct: Counters,
}

fn measure(sys: &dyn Sys, intern: &mut Interner, max_cfgs: usize, mc: u64, seed: u64) -> Result<Measured, String> {
    let limit: u64 = std::env::var("KERN_TIME_LIMIT").ok().and_then(|s| s.parse().ok()).unwrap_or(240);
    let deadline = std::time::Instant::now() + std::time::Duration::from_secs(limit);
    let ks = sys.kernels();
    let mut cache: BTreeMap<u64, u32> = BTreeMap::new();
    let mut ct = Counters::default();
    let mut ids: Vec<u32> = vec![];
    let mut pos: HashMap<u32, usize> = HashMap::new();
    let mut queue: VecDeque<u32> = VecDeque::new();
    for s in sys.seeds() {
        if !(weight(sys, &s) > 0.0) {
            return Err(format!("seed {} has no weight", s.show()));
        }
        let id = intern.id(s);
        if !pos.contains_key(&id) {
            pos.insert(id, ids.len());
            ids.push(id);
            queue.push_back(id);
        }
    }
    let mut rows: Vec<Vec<HashMap<u32, f64>>> = vec![vec![]; ks.len()];
    let mut trunc: Vec<Vec<f64>> = vec![vec![]; ks.len()];
    while let Some(id) = queue.pop_front() {
        let cfg = intern.cfgs[id as usize].clone();
        for (k, spec) in ks.iter().enumerate() {
            let mut ex = Ex { sys, cfg: cfg.clone(), k, intern, cache: &mut cache, ct: &mut ct, eps: spec.eps, trunc: 0.0, maxdepth: if spec.eps > 0.0 { 400 } else { 96 }, budget: 4_000, memo: HashMap::new(), validated: Default::default(), hints: HashMap::new(), nomerge: Default::default(), row_nodes: 0, row_limit: u64::MAX, deadline };
            // truncated kernels (loops): refine the truncation threshold as far as a node budget allows
            let mut sched: Vec<f64> = if spec.eps > 0.0 { [1e-3, 1e-5, 1e-7, 1e-9, 1e-11].iter().cloned().filter(|e| *e > spec.eps).collect() } else { vec![] };
            sched.push(spec.eps);
            let mut best: Option<Rc<Tree>> = None;
            for e in sched {
                ex.eps = e;
                ex.memo.clear();
                ex.validated.clear();
                ex.row_nodes = 0;
                ex.row_limit = if spec.eps > 0.0 { 6000 } else { u64::MAX };
                let mut rounds = 0;
                let res: Result<Rc<Tree>, String> = loop {
                    let tree = match ex.explore(&mut vec![], 1.0) {
                        Ok(t) => t,
                        Err(e) => break Err(e),
                    };
                    match ex.mc_validate(&tree, mc, seed ^ (id as u64) << 8 ^ k as u64) {
                        Ok(()) => break Ok(tree),
                        Err((why, None)) => break Err(why),
                        Err((why, Some(cx))) => {
                            rounds += 1;
                            if rounds > 400 {
                                break Err(format!("no consistent draw tree after 400 refinements ({})", why));
                            }
                            if let Err(e) = ex.refine(&tree, &cx) {
                                break Err(format!("{} / {}", why, e));
                            }
                            ex.ct.refinements += 1;
                        }
                    }
                };
                match res {
                    Ok(t) => best = Some(t),
                    Err(e) if e.contains(ROW_BUDGET_MSG) && best.is_some() => break,
                    Err(e) if e.contains("time budget") => return Err(e),
                    Err(e) => return Err(format!("kernel {} from {}: {}", spec.name, cfg.show(), e)),
                }
            }
            let tree = best.unwrap();
            let tr = trunc_of(&tree, 1.0);
            let mut row = HashMap::new();
            row_of(&tree, 1.0, &intern.canon, &mut row);
            for (o, p) in row.iter() {
                if *p > 0.0 && !pos.contains_key(o) {
                    let c = &intern.cfgs[*o as usize];
                    // only legal configurations are explored further; illegal successors are reported by the oracle
                    if weight(sys, c) > 0.0 {
                        if ids.len() >= max_cfgs {
                            return Err(format!("more than {} configurations", max_cfgs));
                        }
                        pos.insert(*o, ids.len());
                        ids.push(*o);
                        queue.push_back(*o);
                    }
                }
            }
            rows[k].push(row);
            trunc[k].push(tr);
        }
    }
    Ok(Measured { ids, rows, trunc, ct })
}

const TOL: f64 = 1e-9;

fn oracle(sys: &dyn Sys, intern: &Interner, m: &Measured, k: usize) -> Result<(), String> {
    let ks = sys.kernels();
    let spec = &ks[k];
    let n = m.ids.len();
    let pos: HashMap<u32, usize> = m.ids.iter().enumerate().map(|(i, id)| (*id, i)).collect();
    let pi: Vec<f64> = m.ids.iter().map(|id| weight(sys, &intern.cfgs[*id as usize])).collect();
    let show = |id: u32| intern.cfgs[id as usize].show();
    // rows are probability vectors, successors are legal
    for i in 0..n {
        let s: f64 = m.rows[k][i].values().sum::<f64>() + m.trunc[k][i];
        if (s - 1.0).abs() > TOL {
            return Err(format!("row of {} sums to {:.12}", show(m.ids[i]), s));
        }
        for (o, p) in m.rows[k][i].iter() {
            if *p > 0.0 && !pos.contains_key(o) {
                let c = &intern.cfgs[*o as usize];
                let why = if c.bad.is_some() {
                    "the real code panicked"
                } else if c.slots.len() != sys.cutoff() {
                    "the cutoff of the container changed"
                } else if !c.consistent() {
                    "the successor is not a periodic world-line configuration"
                } else {
                    "the successor contains an operator of weight 0"
                };
                return Err(format!("from {} with probability {:.6e} to {}: {}", show(m.ids[i]), p, show(*o), why));
            }
        }
    }
    // stationarity
    let mut inflow = vec![0.0f64; n];
    let mut delta = 0.0; // total truncated flow
    for i in 0..n {
        delta += pi[i] * m.trunc[k][i];
        for (o, p) in m.rows[k][i].iter() {
            inflow[pos[o]] += pi[i] * p;
        }
    }
    let mut worst: Option<(usize, f64)> = None;
    for j in 0..n {
        let scale = inflow[j].max(pi[j]);
        let hi = inflow[j] - pi[j]; // must be <= 0 (+tol)
        let lo = pi[j] - inflow[j] - delta; // must be <= 0 (+tol)
        let v = hi.max(lo) - TOL * scale;
        if v > 0.0 && worst.map(|w| v / scale > w.1).unwrap_or(true) {
            worst = Some((j, v / scale));
        }
    }
    if let Some((j, _)) = worst {
        // the largest contributions
        let mut contrib: Vec<(f64, usize)> = (0..n).filter_map(|i| m.rows[k][i].get(&m.ids[j]).map(|p| (pi[i] * p, i))).collect();
        contrib.sort_by(|a, b| b.0.partial_cmp(&a.0).unwrap());
        let top: Vec<String> = contrib.iter().take(3).map(|(_, i)| format!("pi({})={:.9e}*K={:.9e}", show(m.ids[*i]), pi[*i], m.rows[k][*i][&m.ids[j]])).collect();
        let nbad = (0..n).filter(|j| {
            let scale = inflow[*j].max(pi[*j]);
            (inflow[*j] - pi[*j]).max(pi[*j] - inflow[*j] - delta) > TOL * scale
        }).count();
        return Err(format!(
            "SSE weight not stationary under `{}`: sum_c pi(c)K(c,c')={:.12e} but pi(c')={:.12e} (pi scaled by L!) at c'={} ({} of {} configurations violate; truncated flow {:.3e}); largest terms: {}",
            spec.name, inflow[j], pi[j], show(m.ids[j]), nbad, n, delta, top.join(" ; ")
        ));
    }
    // detailed balance
    if spec.db {
        for i in 0..n {
            for (o, p) in m.rows[k][i].iter() {
                let j = pos[o];
                let back = m.rows[k][j].get(&m.ids[i]).cloned().unwrap_or(0.0);
                let (a, b) = (pi[i] * p, pi[j] * back);
                let slack = pi[i] * m.trunc[k][i] + pi[j] * m.trunc[k][j];
                if (a - b).abs() > TOL * a.max(b) + slack {
                    return Err(format!(
                        "detailed balance fails under `{}`: pi(c)K(c,c')={:.12e}, pi(c')K(c',c)={:.12e}, c={} c'={} K={:.9e} back={:.9e}",
                        spec.name, a, b, show(m.ids[i]), show(*o), p, back
                    ));
                }
            }
        }
    }
    // composition
    if let Some(parts) = &spec.compose {
        for i in 0..n {
            let mut v: HashMap<u32, f64> = HashMap::new();
            v.insert(m.ids[i], 1.0);
            let mut slack = m.trunc[k][i];
            for part in parts {
                let mut nv: HashMap<u32, f64> = HashMap::new();
                for (c, p) in v.iter() {
                    let ci = pos[c];
                    slack += p * m.trunc[*part][ci];
                    for (o, q) in m.rows[*part][ci].iter() {
                        *nv.entry(*o).or_insert(0.0) += p * q;
                    }
                }
                v = nv;
            }
            let mut keys: Vec<u32> = v.keys().cloned().collect();
            keys.extend(m.rows[k][i].keys().cloned());
            keys.sort();
            keys.dedup();
            for o in keys {
                let a = m.rows[k][i].get(&o).cloned().unwrap_or(0.0);
                let b = v.get(&o).cloned().unwrap_or(0.0);
                if (a - b).abs() > TOL + slack {
                    let names: Vec<&str> = parts.iter().map(|p| ks[*p].name).collect();
                    return Err(format!(
                        "`{}` is not the composition {}: from {} to {} measured {:.12e}, product of the measured sub-kernels {:.12e}",
                        spec.name, names.join("*"), show(m.ids[i]), show(o), a, b
                    ));
                }
            }
        }
    }
    Ok(())
}

struct Tally {
    cases: u64,
    abstained: u64,
    abst_msgs: Vec<String>,
}

fn run_system(mode: &str, sys: &dyn Sys, a: &Args, tally: &mut Tally) {
    let t0 = std::time::Instant::now();
    let mut intern = Interner::default();
    let mc = if a.thorough { 48 } else { 24 };
    let mut r = measure(sys, &mut intern, 20000, mc, a.seed);
    let ks = sys.kernels();
    // confirm before raising an alarm: a violation is only reported if it persists when every row of the kernel is
    // re-measured and validated against many more random streams (an unsound draw tree must not become a false alarm)
    if let Ok(m) = &r {
        if (0..ks.len()).any(|k| oracle(sys, &intern, m, k).is_err()) {
            stat("kern_confirmation_runs", 1);
            intern = Interner::default();
            r = measure(sys, &mut intern, 20000, 600, a.seed.wrapping_add(0x51ED));
        }
    }
    match r {
        Err(why) => {
            // the draw structure could not be resolved soundly: no verdict
            if why.contains("time budget of the system exhausted") {
                // wall-clock never decides an outcome: a system that ran out of time is counted, not judged
                stat("kern_timed_out_systems", 1);
                eprintln!("kern timed out (no verdict): {} {}", mode, sys.describe());
                return;
            }
            tally.abstained += 1;
            tally.cases += 1;
            tally.abst_msgs.push(format!("{} {}: {}", mode, sys.describe(), why));
            eprintln!("kern abstained: {} {}: {}", mode, sys.describe(), why);
            stat("kern_abstained_systems", 1);
        }
        Ok(m) => {
            stat(&format!("kern_{}_systems", mode), 1);
            stat(&format!("kern_{}_configurations", mode), m.ids.len());
            stat(&format!("kern_{}_branches", mode), m.ct.leaves);
            stat("kern_runs_of_real_code", m.ct.runs);
            stat("kern_tree_nodes", m.ct.nodes);
            stat("kern_piece_splits_by_validation", m.ct.splits);
            stat("kern_retry_pieces", m.ct.retry_pieces);
            stat("kern_trailing_ones_draws", m.ct.ones_nodes);
            stat("kern_random_stream_validations", m.ct.mc_checks);
            stat("kern_counterexample_refinements", m.ct.refinements);
            for (k, spec) in ks.iter().enumerate() {
                tally.cases += 1;
                let nz: usize = m.rows[k].iter().map(|r| r.len()).sum();
                let tr: f64 = m.trunc[k].iter().cloned().fold(0.0, f64::max);
                let input = format!("kern {} {} {} cfgs={} entries={}", mode, sys.describe(), spec.name, m.ids.len(), nz);
                let o = oracle(sys, &intern, &m, k);
                if tr > 0.0 {
                    stat(&format!("kern_{}_max_truncated_row_mass_e9", mode), (tr * 1e9) as u64);
                }
                emit(true, &input, "ok", Some(o));
            }
            if std::env::var("KERN_DEBUG").is_ok() {
                eprintln!(
                    "[{:.1}s] {} {}: {} cfgs, {} leaves, {} runs, {} nodes, {} splits, {} bisections, {} cache hits, {} merges, {} retry, {} ones, {} refinements",
                    t0.elapsed().as_secs_f64(), mode, sys.describe(), m.ids.len(), m.ct.leaves, m.ct.runs, m.ct.nodes, m.ct.splits, m.ct.bisections, m.ct.cache_hits, m.ct.merges, m.ct.retry_pieces, m.ct.ones_nodes, m.ct.refinements
                );
            }
        }
    }
}

// ------------------------------------------------------------------------------------------------
// system lists
// ------------------------------------------------------------------------------------------------
fn ising(edges: Vec<((usize, usize), f64)>, nvars: usize, gamma: f64, h: f64, beta: f64, l: usize) -> IsingSys {
    IsingSys { edges, nvars, gamma, h, beta, l, heatbath: false, rvb: false, step: true }
}

fn ising_systems(thorough: bool, heatbath: bool) -> Vec<IsingSys> {
    let mut v = vec![];
    // (edges, gamma, h, beta, cutoffs quick, cutoffs thorough)
    let one = |j: f64| vec![((0usize, 1usize), j)];
    let specs: Vec<(Vec<((usize, usize), f64)>, f64, f64, f64, Vec<usize>, Vec<usize>)> = vec![
        // antiferromagnetic bond, saturated Metropolis regime (beta*Nb*W = 6 > L-n+1)
        (one(1.0), 0.5, 0.0, 1.0, vec![1, 2, 3], vec![1, 2, 3]),
        // ferromagnetic bond, unsaturated regime for the field terms (beta*Nb*Gamma = 3/8)
        (one(-0.75), 0.5, 0.0, 0.25, vec![1, 2], vec![1, 2, 3]),
        // double edge with both signs and unequal magnitudes
        (vec![((0, 1), 1.0), ((1, 0), -0.5)], 0.5, 0.0, 1.0, vec![1, 2], vec![1, 2, 3]),
        // longitudinal field of both signs
        (one(0.5), 0.5, 0.25, 1.0, vec![1, 2], vec![1, 2, 3]),
        (vec![((0, 1), -1.0), ((0, 1), -1.0)], 0.25, -0.5, 1.5, vec![1, 2], vec![1, 2]),
        (one(-0.5), 1.0, -0.75, 0.5, vec![2], vec![1, 2, 3]),
    ];
    for (edges, g, h, b, lq, lt) in specs {
        for l in if thorough { lt } else { lq } {
            let mut s = ising(edges.clone(), 2, g, h, b, l);
            s.heatbath = heatbath;
            // the composed timestep multiplies the trees: keep it to the smaller ones
            s.step = l <= 2 || (h == 0.0 && edges.len() == 1 && !heatbath);
            v.push(s);
        }
    }
    if thorough {
        // three spins: open chain with unequal couplings, and a frustrated triangle
        for l in [1usize, 2] {
            let mut s = ising(vec![((0, 1), 1.0), ((1, 2), -0.5)], 3, 0.5, 0.0, 1.0, l);
            s.heatbath = heatbath;
            s.step = l == 1;
            v.push(s);
            let mut s = ising(vec![((0, 1), 0.5), ((1, 2), 0.5), ((2, 0), 0.5)], 3, 0.5, 0.25, 0.5, l);
            s.heatbath = heatbath;
            s.step = l == 1;
            v.push(s);
        }
    }
    v
}

fn rvb_systems(thorough: bool) -> Vec<IsingSys> {
    let mut v = vec![];
    let tri = vec![((0usize, 1usize), 1.0), ((1, 2), 1.0), ((2, 0), 1.0)];
    let dbl = vec![((0usize, 1usize), 1.0), ((0, 1), 1.0)];
    let mut add = |edges: &Vec<((usize, usize), f64)>, n: usize, g: f64, h: f64, b: f64, l: usize| {
        let mut s = ising(edges.clone(), n, g, h, b, l);
        s.rvb = true;
        s.step = false;
        v.push(s);
    };
    add(&dbl, 2, 0.5, 0.0, 1.0, 1);
    add(&dbl, 2, 0.5, 0.0, 1.0, 2);
    add(&dbl, 2, 0.5, 0.25, 0.5, 2);
    add(&tri, 3, 0.5, 0.0, 0.5, 1);
    add(&tri, 3, 0.5, 0.25, 0.5, 1);
    if thorough {
        add(&dbl, 2, 0.5, 0.0, 1.0, 3);
        add(&dbl, 2, 0.25, -0.5, 1.0, 3);
        add(&tri, 3, 0.5, 0.0, 0.5, 2);
        add(&tri, 3, 0.5, 0.25, 0.5, 2);
        add(&tri, 3, 1.0, -0.5, 1.0, 2);
    }
    v
}

/// full 2-site matrix (index = outputs*4 + inputs, msb first): diagonal (a, b, b, a'), exchange c between 01 and 10,
/// pair term p between 00 and 11
fn exchange(a: f64, a2: f64, b: f64, c: f64, p: f64) -> Vec<f64> {
    let mut m = vec![0.0; 16];
    m[0b0000] = a;
    m[0b0101] = b;
    m[0b1010] = b;
    m[0b1111] = a2;
    m[0b0110] = c;
    m[0b1001] = c;
    m[0b0011] = p;
    m[0b1100] = p;
    m
}

fn generic_systems(thorough: bool) -> Vec<GenSys> {
    let mut v = vec![];
    let k = |name: &'static str, db: bool, eps: f64| KSpec { name, db, compose: None, eps };
    let eps_env: Option<f64> = std::env::var("KERN_EPS").ok().and_then(|s| s.parse().ok());
    // one operator: the draw tree of a loop is a caterpillar, 1e-11 costs a few hundred nodes; more operators: heavy tails
    let eps_for = |l: usize| eps_env.unwrap_or(if l == 1 { 1e-11 } else { 1e-3 });
    // (1) exchange-type 2-site matrix with loop updates
    for l in if thorough { vec![1usize, 2, 3] } else { vec![1usize, 2] } {
        v.push(GenSys {
            nvars: 2,
            inter: vec![Inter { diagonal: false, mat: exchange(0.25, 0.25, 0.75, 0.5, 0.0), vars: vec![0, 1] }],
            beta: 1.0,
            l,
            heatbath: false,
            kern: vec![k("diag", l == 1, 0.0), k("loop", true, eps_for(l)), k("free", true, 0.0)],
            loops_flag: true,
        });
    }
    // (2) anisotropic exchange with a pair-creation term and unequal diagonal, not Ising symmetric
    for l in if thorough { vec![1usize, 2] } else { vec![2usize] } {
        v.push(GenSys {
            nvars: 2,
            inter: vec![Inter { diagonal: false, mat: exchange(0.5, 0.25, 1.0, 0.5, 0.25), vars: vec![0, 1] }],
            beta: 0.5,
            l,
            heatbath: false,
            kern: vec![k("diag", l == 1, 0.0), k("loop", true, eps_for(l)), k("free", true, 0.0)],
            loops_flag: true,
        });
    }
    // (3) Ising-symmetric diagonal bond + constant single-site terms: cluster updates, composed timestep
    for l in if thorough { vec![1usize, 2, 3] } else { vec![1usize, 2] } {
        v.push(GenSys {
            nvars: 2,
            inter: vec![
                Inter { diagonal: true, mat: vec![0.25, 1.0, 1.0, 0.25], vars: vec![0, 1] },
                Inter { diagonal: false, mat: vec![0.5; 4], vars: vec![0] },
                Inter { diagonal: false, mat: vec![0.75; 4], vars: vec![1] },
            ],
            beta: 1.0,
            l,
            heatbath: false,
            kern: vec![
                k("diag", l == 1, 0.0),
                k("cluster", true, 0.0),
                k("free", true, 0.0),
                KSpec { name: "step", db: false, compose: if l <= 2 { Some(vec![0, 1, 2]) } else { None }, eps: 0.0 },
            ],
            loops_flag: false,
        });
    }
    // (4) heat-bath diagonal update with a three-variable diagonal term whose maximum sits on the last substates
    for (l, mat) in [(1usize, vec![0.5, 1.0, 1.0, 1.0, 1.0, 1.0, 1.0, 3.0]), (2, vec![0.5, 1.0, 1.0, 2.0, 1.0, 0.5, 1.0, 1.0])] {
        if l == 2 && !thorough {
            continue;
        }
        v.push(GenSys {
            nvars: 3,
            inter: vec![
                Inter { diagonal: true, mat, vars: vec![0, 1, 2] },
                Inter { diagonal: true, mat: vec![0.5, 0.25], vars: vec![0] },
                Inter { diagonal: false, mat: vec![0.5; 4], vars: vec![1] },
            ],
            beta: 1.0,
            l,
            heatbath: true,
            kern: vec![k("diag", l == 1, 0.0), k("free", true, 0.0)],
            loops_flag: false,
        });
    }
    // (6) mixed arity, diagonal terms only (loops flip world-line segments): a two-site and a single-site term. Before the
    //     fix 7073632 (F22) the start leg was drawn as (operator, then leg of that operator), which is not uniform over
    //     legs when arities differ, and the loop move was not stationary. (7): one-, two- and three-site terms together.
    let eps_mixed: f64 = std::env::var("KERN_EPS_MIXED").ok().and_then(|s| s.parse().ok()).unwrap_or(1e-5);
    v.push(GenSys {
        nvars: 2,
        inter: vec![Inter { diagonal: true, mat: vec![0.25, 0.75, 0.75, 0.25], vars: vec![0, 1] }, Inter { diagonal: true, mat: vec![0.5, 0.125], vars: vec![1] }],
        beta: 1.0,
        l: 2,
        heatbath: false,
        kern: vec![k("diag", false, 0.0), k("loop", true, eps_mixed), k("free", true, 0.0)],
        loops_flag: true,
    });
    if thorough || std::env::var("KERN_ALL").is_ok() {
        v.push(GenSys {
            nvars: 3,
            inter: vec![
                Inter { diagonal: true, mat: vec![0.5, 1.0, 0.25, 1.0, 1.0, 0.5, 1.0, 0.25], vars: vec![0, 1, 2] },
                Inter { diagonal: true, mat: vec![0.5, 1.0, 1.0, 0.25], vars: vec![0, 1] },
                Inter { diagonal: true, mat: vec![0.5, 0.25], vars: vec![2] },
            ],
            beta: 1.0,
            l: 2,
            heatbath: false,
            kern: vec![k("diag", false, 0.0), k("loop", true, eps_mixed), k("free", true, 0.0)],
            loops_flag: true,
        });
    }
    // (5) the same exchange model with the heat-bath diagonal update and loops
    v.push(GenSys {
        nvars: 2,
        inter: vec![Inter { diagonal: false, mat: exchange(0.25, 0.25, 0.75, 0.5, 0.0), vars: vec![0, 1] }, Inter { diagonal: true, mat: vec![0.5, 0.125], vars: vec![1] }],
        beta: 1.0,
        l: 2,
        heatbath: true,
        kern: vec![k("diag", false, 0.0), k("loop", true, eps_for(2)), k("free", true, 0.0)],
        loops_flag: true,
    });
    v
}

fn main() {
    if std::env::var("KERN_LOUD").is_err() {
        quiet_panics();
    }
    let a = args();
    let only = std::env::var("KERN_ONLY").ok();
    let mut tally = Tally { cases: 0, abstained: 0, abst_msgs: vec![] };
    let t0 = std::time::Instant::now();
    let mode = a.mode.clone();
    let keep = |d: &str| only.as_ref().map(|o| d.contains(o.as_str())).unwrap_or(true);
    match mode.as_str() {
        "ising" | "heatbath" => {
            for s in ising_systems(a.thorough, mode == "heatbath") {
                if keep(&s.describe()) {
                    run_system(&mode, &s, &a, &mut tally);
                }
            }
        }
        "rvb" => {
            for s in rvb_systems(a.thorough) {
                if keep(&s.describe()) {
                    run_system(&mode, &s, &a, &mut tally);
                }
            }
        }
        "generic" => {
            for s in generic_systems(a.thorough) {
                if keep(&s.describe()) {
                    run_system(&mode, &s, &a, &mut tally);
                }
            }
        }
        // fixed input of the mixed-arity loop finding (exchange bond + single-site diagonal term, L = 2): the loop kernel
        // measured with truncation 1e-5; the truncated inflow is a rigorous lower bound and already exceeds pi
        "witness-loop-arity" => {
            let mut s = generic_systems(false).pop().unwrap();
            for k in s.kern.iter_mut() {
                if k.name == "loop" {
                    k.eps = 1e-5;
                }
            }
            run_system("generic", &s, &a, &mut tally);
        }
        // debugging aid (not part of any check): Monte-Carlo estimate of the inflow for one kernel of one generic system
        "mcprobe" => {
            let kname = std::env::var("KERN_KERNEL").unwrap_or("loop".into());
            let nsamp: u64 = std::env::var("KERN_N").ok().and_then(|s| s.parse().ok()).unwrap_or(200_000);
            for s in generic_systems(a.thorough) {
                if !keep(&s.describe()) {
                    continue;
                }
                let sys: &dyn Sys = &s;
                let mut coarse = s.clone();
                for k in coarse.kern.iter_mut() {
                    if k.eps > 0.0 {
                        k.eps = 1e-2;
                    }
                }
                let mut intern = Interner::default();
                let m = measure(&coarse, &mut intern, 20000, 4, a.seed).unwrap();
                let k = s.kern.iter().position(|x| x.name == kname).unwrap();
                let pos: HashMap<u32, usize> = m.ids.iter().enumerate().map(|(i, id)| (*id, i)).collect();
                let pi: Vec<f64> = m.ids.iter().map(|id| weight(sys, &intern.cfgs[*id as usize])).collect();
                let n = m.ids.len();
                let mut inflow = vec![0.0f64; n];
                let mut var = vec![0.0f64; n];
                for i in 0..n {
                    let cfg = intern.cfgs[m.ids[i] as usize].clone();
                    let mut counts: HashMap<u32, u64> = HashMap::new();
                    for t in 0..nsamp {
                        tl_reset(&[], a.seed.wrapping_mul(7919).wrapping_add(i as u64 * 1_000_003 + t), 1 << 20);
                        let c = sys.run(&cfg, k);
                        let _ = qmc::util::allocator::verif_log::take();
                        *counts.entry(intern.id(c)).or_insert(0) += 1;
                    }
                    for (o, cnt) in counts {
                        let p = cnt as f64 / nsamp as f64;
                        match pos.get(&o) {
                            Some(j) => {
                                inflow[*j] += pi[i] * p;
                                var[*j] += pi[i] * pi[i] * p * (1.0 - p) / nsamp as f64;
                            }
                            None => println!("successor outside the closed set: {} -> {}", cfg.show(), intern.cfgs[o as usize].show()),
                        }
                    }
                }
                for j in 0..n {
                    let sd = var[j].sqrt();
                    let z = (inflow[j] - pi[j]) / sd.max(1e-300);
                    println!("{:>8.3} sigma  inflow {:.6e} pi {:.6e} sd {:.2e}  {}", z, inflow[j], pi[j], sd, intern.cfgs[m.ids[j] as usize].show());
                }
            }
        }
        m => panic!("unknown mode {}", m),
    }
    stat("kern_abstained", tally.abstained);
    // abstentions are counted, not alarms, unless they exceed a small budget
    if tally.abstained > 1 + tally.cases / 10 {
        emit(true, &format!("kern {} abstentions", mode), "ok", Some(Err(format!("abstain: {} of {} cases could not be resolved: {}", tally.abstained, tally.cases, tally.abst_msgs.join(" // ")))));
    }
    if std::env::var("KERN_DEBUG").is_ok() {
        eprintln!("total {:.1}s", t0.elapsed().as_secs_f64());
    }
}
