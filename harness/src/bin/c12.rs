//! C12 — expansion cutoff never shrinks and keeps headroom.
//! Runs the real Ising and generic samplers from tiny initial cutoffs under every update mix and
//! reports, after every step, (previous cutoff, previous container length, n) → (cutoff,
//! container length), plus the slot occupancy before/after.  The Lean driver answers with the model
//! rule (`nextCutoff`, `growLen`, `isSweepResult`).  The oracle column evaluates the property
//! directly on the observed numbers (no model involved).

use qmc::sse::*;
use vh::*;

type G = DefaultQmcIsingGraph<SplitMix64>;
type Q = DefaultQmc<SplitMix64>;

#[derive(Clone, Debug)]
struct Obs {
    cutoff: usize,
    len: usize,
    n: usize,
    occ: Vec<bool>,
}

fn occ_of<M: OpContainer>(m: &M) -> Vec<bool> {
    (0..m.get_cutoff()).map(|p| m.get_pth(p).is_some()).collect()
}
fn obs_g(g: &G) -> Obs {
    let m = g.get_manager_ref();
    Obs { cutoff: g.get_cutoff(), len: m.get_cutoff(), n: m.get_n(), occ: occ_of(m) }
}
fn obs_q(q: &Q) -> Obs {
    let m = q.get_manager_ref();
    Obs { cutoff: q.get_cutoff(), len: m.get_cutoff(), n: m.get_n(), occ: occ_of(m) }
}

/// The property, evaluated on what the real code reported before and after one step.
fn oracle(before: &Obs, after: &Obs, rule_applied: bool) -> Result<(), String> {
    let counted = after.occ.iter().filter(|b| **b).count();
    if counted != after.n {
        return Err(format!("get_n()={} but {} occupied slots", after.n, counted));
    }
    if after.cutoff < before.cutoff {
        return Err(format!("cutoff shrank {} -> {}", before.cutoff, after.cutoff));
    }
    if after.len < before.len {
        return Err(format!("container shrank {} -> {}", before.len, after.len));
    }
    if after.n > after.cutoff {
        return Err(format!("n={} exceeds cutoff={}", after.n, after.cutoff));
    }
    if after.n > after.len {
        return Err(format!("n={} exceeds container length={}", after.n, after.len));
    }
    if rule_applied {
        if after.n >= after.cutoff {
            return Err(format!("no free slot after the step: n={} cutoff={}", after.n, after.cutoff));
        }
        if after.n + after.n / 2 >= after.cutoff {
            return Err(format!("margin lost: n={} n+n/2={} cutoff={}", after.n, after.n + after.n / 2, after.cutoff));
        }
        if after.n > before.cutoff {
            return Err(format!("sweep with cutoff {} left n={}", before.cutoff, after.n));
        }
        if after.len < before.cutoff {
            return Err(format!("container length {} below the cutoff {} the sweep used", after.len, before.cutoff));
        }
    }
    Ok(())
}

struct Tracker {
    grew: usize,
    steps: usize,
}

fn emit_step(site: &str, before: &Obs, after: &Obs, tr: &mut Tracker) {
    let nt = after.cutoff > before.cutoff || after.n > 0;
    if after.cutoff > before.cutoff {
        tr.grew += 1;
    }
    tr.steps += 1;
    emit(
        nt,
        &format!("step {} {} {} {}", site, before.cutoff, before.len, after.n),
        &format!("{} {}", after.cutoff, after.len),
        Some(oracle(before, after, true)),
    );
    // shape of the sweep: container padded to the cutoff, slots >= cutoff untouched
    let shape_ok = after.occ.len() == before.occ.len().max(before.cutoff)
        && (before.cutoff..after.occ.len()).all(|p| after.occ[p] == *before.occ.get(p).unwrap_or(&false));
    emit(
        nt,
        &format!("sweep {} {} {}", before.cutoff, bits(&before.occ), bits(&after.occ)),
        &format!("1 {}", after.n),
        Some(if shape_ok { Ok(()) } else { Err("slots at or above the cutoff changed / wrong container length".into()) }),
    );
}

#[derive(Clone, Copy, Debug, PartialEq, Eq)]
enum Mix {
    Plain,
    Rvb,
    HeatBath,
    RvbHeatBath,
    Split,
}

fn make_edges(gen: &mut SplitMix64, nv: usize, equal_mag: bool) -> Vec<((usize, usize), f64)> {
    let mut e = vec![];
    let shape = gen.below(3);
    let mag = *gen.pick(&[0.5, 1.0, 1.5, 2.0]);
    let mut j = |gen: &mut SplitMix64| -> f64 {
        let m = if equal_mag { mag } else { *gen.pick(&[0.25, 0.5, 1.0, 1.5, 2.0]) };
        if gen.coin() { m } else { -m }
    };
    for a in 0..nv - 1 {
        e.push(((a, a + 1), j(gen)));
    }
    if shape >= 1 && nv > 2 {
        e.push(((nv - 1, 0), j(gen)));
    }
    if shape == 2 && nv > 3 {
        e.push(((0, 2), j(gen)));
    }
    e
}

fn run_ising(gen: &mut SplitMix64, steps: usize, init_cutoff_kind: usize, mix: Mix, tr: &mut Tracker) {
    let nv = gen.range(2, 6) as usize;
    let rvb = matches!(mix, Mix::Rvb | Mix::RvbHeatBath | Mix::Split);
    let edges = make_edges(gen, nv, rvb);
    let gamma = *gen.pick(&[0.25, 0.5, 1.0, 2.0]);
    let h = if gen.chance(1, 3) { *gen.pick(&[-1.0, -0.5, 0.5, 1.0]) } else { 0.0 };
    let beta = *gen.pick(&[0.5, 1.0, 2.0, 4.0, 8.0, 16.0]);
    let cutoff = match init_cutoff_kind {
        0 => 1,
        1 => 2,
        2 => 3,
        3 => nv,
        _ => 1 + gen.below(3) as usize, // far below beta*|E| for the larger betas
    };
    let seed = gen.next();
    stat(&format!("ising_mix_{:?}", mix), 1);
    stat(&format!("init_cutoff_{}", cutoff), 1);
    stat(if h != 0.0 { "ising_h_nonzero" } else { "ising_h_zero" }, 1);
    let mut g = G::new_with_rng(edges.clone(), gamma, h, cutoff, SplitMix64::new(seed), None);
    // constructor
    let o = obs_g(&g);
    emit(false, &format!("new ising {}", cutoff), &format!("{} {}", o.cutoff, o.len), Some(if o.cutoff == cutoff && o.n == 0 { Ok(()) } else { Err("constructor cutoff".into()) }));
    match mix {
        Mix::Rvb | Mix::Split => g.set_run_rvb(mix == Mix::Rvb),
        Mix::HeatBath => g.set_enable_heatbath(true),
        Mix::RvbHeatBath => {
            g.set_run_rvb(true);
            g.set_enable_heatbath(true)
        }
        Mix::Plain => {}
    }
    let label = format!("ising-{:?}", mix).to_lowercase();
    for _ in 0..steps {
        let before = obs_g(&g);
        let r = catch(|| {
            if mix == Mix::Split {
                g.single_diagonal_step(beta);
                let mid = obs_g(&g);
                g.single_rvb_sweep(None);
                g.single_cluster_step();
                mid
            } else {
                g.timestep(beta);
                obs_g(&g)
            }
        });
        match r {
            Ok(mid) => {
                let after = obs_g(&g);
                if mix == Mix::Split {
                    // the rule sits in single_diagonal_step; the other two moves must not touch cutoff/len/n
                    emit_step("ising-single_diagonal_step", &before, &mid, tr);
                    let same = mid.cutoff == after.cutoff && mid.len == after.len && mid.n == after.n && mid.occ == after.occ;
                    emit(
                        false,
                        &format!("idle ising-rvb+cluster {} {} {}", mid.cutoff, mid.len, mid.n),
                        &format!("{} {} {}", after.cutoff, after.len, after.n),
                        Some(if same { Ok(()) } else { Err("rvb/cluster moves changed occupancy, count or cutoff".into()) }),
                    );
                } else {
                    emit_step(&label, &before, &after, tr);
                }
            }
            Err(p) => {
                emit(true, &format!("step {} {} {} 0", label, before.cutoff, before.len), "panic", Some(Err(format!("step panicked: {} (nv={} edges={:?} gamma={} h={} beta={} cutoff0={})", p, nv, edges, gamma, h, beta, cutoff))));
                return;
            }
        }
    }
}

fn run_generic(gen: &mut SplitMix64, steps: usize, one_spin: bool, tr: &mut Tracker) {
    let nv = if one_spin { 1 } else { gen.range(2, 5) as usize };
    let loops = gen.coin();
    let heat = gen.chance(1, 3);
    let beta = *gen.pick(&[0.5, 1.0, 2.0, 4.0, 8.0, 16.0]);
    let seed = gen.next();
    let mut q = Q::new_with_state(nv, SplitMix64::new(seed), vec![false; nv], loops);
    let o = obs_q(&q);
    emit(one_spin, &format!("new generic {}", nv), &format!("{} {}", o.cutoff, o.len), Some(if o.cutoff == nv { Ok(()) } else { Err("constructor cutoff".into()) }));
    let gamma = *gen.pick(&[0.5, 1.0, 2.0]);
    for v in 0..nv {
        q.make_interaction(vec![gamma; 4], vec![v]).unwrap();
    }
    if gen.coin() {
        // a diagonal field term on every spin (breaks the Ising symmetry: no cluster updates)
        let a = *gen.pick(&[0.5, 1.0]);
        for v in 0..nv {
            q.make_diagonal_interaction(vec![a, 0.0], vec![v]).unwrap();
        }
    }
    for v in 0..nv.saturating_sub(1) {
        let j = *gen.pick(&[-1.0, -0.5, 0.5, 1.0]);
        q.make_diagonal_interaction_and_offset(vec![-j, j, j, -j], vec![v, v + 1]).unwrap();
    }
    q.set_do_heatbath(heat);
    stat(if one_spin { "generic_one_spin" } else { "generic_multi_spin" }, 1);
    stat(if loops { "generic_loops" } else { "generic_noloops" }, 1);
    stat(if heat { "generic_heatbath" } else { "generic_metropolis" }, 1);
    let use_parts = gen.coin();
    let label = format!("generic{}{}{}", if one_spin { "-1spin" } else { "" }, if loops { "-loop" } else { "" }, if heat { "-hb" } else { "" });
    for _ in 0..steps {
        let before = obs_q(&q);
        let r = catch(|| {
            if use_parts {
                q.diagonal_update(beta);
                let mid = obs_q(&q);
                if q.should_do_loop_update() {
                    q.loop_update();
                }
                if q.should_do_cluster_update() {
                    q.cluster_update().unwrap();
                }
                q.flip_free_bits();
                mid
            } else {
                q.timestep(beta);
                obs_q(&q)
            }
        });
        match r {
            Ok(mid) => {
                let after = obs_q(&q);
                if use_parts {
                    emit_step(&format!("{}-diagonal_update", label), &before, &mid, tr);
                    let same = mid.cutoff == after.cutoff && mid.len == after.len && mid.n == after.n && mid.occ == after.occ;
                    emit(
                        false,
                        &format!("idle generic-loop+cluster {} {} {}", mid.cutoff, mid.len, mid.n),
                        &format!("{} {} {}", after.cutoff, after.len, after.n),
                        Some(if same { Ok(()) } else { Err("loop/cluster moves changed occupancy, count or cutoff".into()) }),
                    );
                } else {
                    emit_step(&label, &before, &after, tr);
                }
            }
            Err(p) => {
                emit(true, &format!("step {} {} {} 0", label, before.cutoff, before.len), "panic", Some(Err(format!("step panicked: {}", p))));
                return;
            }
        }
    }
    // raising the cutoff by hand
    let before = obs_q(&q);
    let target = before.cutoff + gen.below(5) as usize;
    q.increase_cutoff_to(target);
    let after = obs_q(&q);
    emit(
        false,
        &format!("setcut {} {} {}", target, before.cutoff, bits(&before.occ)),
        &format!("{} {} {}", after.cutoff, after.len, after.n),
        Some(if after.cutoff >= before.cutoff && after.len >= after.cutoff && after.n == before.n { Ok(()) } else { Err("increase_cutoff_to".into()) }),
    );
}

fn run_tempering(gen: &mut SplitMix64, parallel: bool) {
    use qmc::sse::parallel_tempering::*;
    let nv = gen.range(2, 5) as usize;
    let edges: Vec<((usize, usize), f64)> = (0..nv - 1).map(|a| ((a, a + 1), 1.0)).collect();
    let nrep = gen.range(2, 5) as usize;
    let mut tc = new_with_rng::<SplitMix64, SplitMix64>(SplitMix64::new(gen.next()));
    for r in 0..nrep {
        let cutoff = 1 + gen.below(6) as usize;
        let beta = 0.5 * (r as f64 + 1.0) * *gen.pick(&[1.0, 2.0, 4.0]);
        let g = G::new_with_rng(edges.clone(), 1.0, 0.0, cutoff, SplitMix64::new(gen.next()), None);
        tc.add_qmc_stepper(g, beta).unwrap();
    }
    for _round in 0..4 {
        tc.timesteps(1 + gen.below(4) as usize);
        let before: Vec<Obs> = tc.graph_ref().iter().map(|(g, _)| obs_g(g)).collect();
        if parallel {
            tc.parallel_tempering_step();
        } else {
            tc.tempering_step();
        }
        let after: Vec<Obs> = tc.graph_ref().iter().map(|(g, _)| obs_g(g)).collect();
        let m = before.iter().map(|o| o.cutoff).max().unwrap();
        let mut ok = Ok(());
        for (b, a) in before.iter().zip(after.iter()) {
            if a.cutoff < b.cutoff {
                ok = Err(format!("equalisation lowered a cutoff {} -> {}", b.cutoff, a.cutoff));
            }
            if a.cutoff != m {
                ok = Err(format!("cutoff {} is not the maximum {}", a.cutoff, m));
            }
            if a.len < a.cutoff.min(m) || a.n > a.len || a.n >= a.cutoff {
                ok = Err(format!("after swap: len={} cutoff={} n={}", a.len, a.cutoff, a.n));
            }
        }
        let ns_b: usize = before.iter().map(|o| o.n).sum();
        let ns_a: usize = after.iter().map(|o| o.n).sum();
        if ns_a != ns_b {
            ok = Err("tempering step changed the total operator count".into());
        }
        let distinct = before.iter().any(|o| o.cutoff != m);
        stat(if parallel { "tempering_parallel_rounds" } else { "tempering_serial_rounds" }, 1);
        emit(
            distinct,
            &format!("equalise {} {}", list(&before.iter().map(|o| o.cutoff).collect::<Vec<_>>()), list(&before.iter().map(|o| o.len).collect::<Vec<_>>())),
            &format!("{} {}", list(&after.iter().map(|o| o.cutoff).collect::<Vec<_>>()), list(&after.iter().map(|o| o.len).collect::<Vec<_>>())),
            Some(ok),
        );
    }
}

/// Statistical sanity line (NOT a claim of the check): energy per run from cutoff 1 vs a generous one.
fn sanity(seed: u64) {
    let edges = vec![((0, 1), 1.0), ((1, 2), 1.0), ((2, 3), 1.0), ((3, 0), 1.0)];
    let beta = 4.0;
    let mut a = G::new_with_rng(edges.clone(), 1.0, 0.0, 1, SplitMix64::new(seed), None);
    let mut b = G::new_with_rng(edges, 1.0, 0.0, 400, SplitMix64::new(seed ^ 0x55), None);
    a.timesteps(300, beta);
    b.timesteps(300, beta);
    let ea = a.timesteps(20000, beta);
    let eb = b.timesteps(20000, beta);
    println!("STAT sanity_energy_ring4_beta4 cutoff1={:.3}(final_cutoff={}) cutoff400={:.3}(final_cutoff={})", ea, a.get_cutoff(), eb, b.get_cutoff());
    let mut q = Q::new_with_state(1, SplitMix64::new(seed), vec![false], false);
    q.make_interaction(vec![1.0; 4], vec![0]).unwrap();
    q.timesteps(300, beta);
    let eq = q.timesteps(3000, beta);
    // one spin, H = -(1 + sx): ground energy -2; weight matrix all ones => E -> -2 at large beta
    println!("STAT sanity_energy_generic_one_spin_beta4 energy={:.3}(final_cutoff={})", eq, q.get_cutoff());
}

fn main() {
    quiet_panics();
    let a = args();
    let mut gen = SplitMix64::new(a.seed.wrapping_mul(0x9E37_79B9).wrapping_add(12));
    let (reps, steps) = if a.thorough { (400, 80) } else { (40, 30) };
    let mut tr = Tracker { grew: 0, steps: 0 };
    let mixes = [Mix::Plain, Mix::Rvb, Mix::HeatBath, Mix::RvbHeatBath, Mix::Split];
    for rep in 0..reps {
        for (mi, mix) in mixes.iter().enumerate() {
            run_ising(&mut gen, steps, (rep + mi) % 5, *mix, &mut tr);
        }
        run_generic(&mut gen, steps, true, &mut tr);
        run_generic(&mut gen, steps, false, &mut tr);
        if rep % 3 == 0 {
            run_tempering(&mut gen, false);
            run_tempering(&mut gen, true);
        }
    }
    stat("steps_total", tr.steps);
    stat("steps_where_cutoff_grew", tr.grew);
    sanity(a.seed);
}
