//! C12 — expansion cutoff never shrinks and keeps headroom.
//! Runs the real Ising and generic samplers from tiny initial cutoffs under every update mix and
//! reports, after every step, (previous cutoff, previous container length, n) → (cutoff,
//! container length), plus the slot occupancy before/after.  The Lean driver answers with the model
//! rule (`nextCutoff`, `growLen`, `isSweepResult`).  The oracle column evaluates the property
//! directly on the observed numbers (no model involved).

use qmc::sse::*;
use vh::*;

type G = DefaultQmcIsingGraph<SplitMix64>;
type Q = DefaultQmc<SplitMix64>;

#[derive(Clone, Debug)]
struct Obs {
    cutoff: usize,
    len: usize,
    n: usize,
    occ: Vec<bool>,
}

fn occ_of<M: OpContainer>(m: &M) -> Vec<bool> {
    (0..m.get_cutoff()).map(|p| m.get_pth(p).is_some()).collect()
}
fn obs_g(g: &G) -> Obs {
    let m = g.get_manager_ref();
    Obs { cutoff: g.get_cutoff(), len: m.get_cutoff(), n: m.get_n(), occ: occ_of(m) }
}
fn obs_q(q: &Q) -> Obs {
    let m = q.get_manager_ref();
    Obs { cutoff: q.get_cutoff(), len: m.get_cutoff(), n: m.get_n(), occ: occ_of(m) }
}

/// The property, evaluated on what the real code reported before and after one step.
fn oracle(before: &Obs, after: &Obs, rule_applied: bool) -> Result<(), String> {
    let counted = after.occ.iter().filter(|b| **b).count();
    if counted != after.n {
        return Err(format!("get_n()={} but {} occupied slots", after.n, counted));
    }
    if after.cutoff < before.cutoff {
        return Err(format!("cutoff shrank {} -> {}", before.cutoff, after.cutoff));
    }
    if after.len < before.len {
        return Err(format!("container shrank {} -> {}", before.len, after.len));
    }
    if after.n > after.cutoff {
        return Err(format!("n={} exceeds cutoff={}", after.n, after.cutoff));
    }
    if after.n > after.len {
        return Err(format!("n={} exceeds container length={}", after.n, after.len));
    }
    // every operator below the cutoff of the next sweep (always); the raw container length is bounded by the
    // cutoff whenever it was so before the step (a user may have pinned the cutoff below the slot count of a
    // container with trailing EMPTY slots: `run_user_cutoff_*`; the container never shrinks)
    if top_of(after) > after.cutoff {
        return Err(format!("an operator sits in slot {} at or beyond the sampler cutoff {} (n = {})", top_of(after) - 1, after.cutoff, after.n));
    }
    if before.len <= before.cutoff && after.len > after.cutoff {
        return Err(format!("container length {} exceeds the sampler cutoff {} (operators may sit beyond the next sweep)", after.len, after.cutoff));
    }
    if rule_applied {
        if after.n >= after.cutoff {
            return Err(format!("no free slot after the step: n={} cutoff={}", after.n, after.cutoff));
        }
        if after.n + after.n / 2 >= after.cutoff {
            return Err(format!("margin lost: n={} n+n/2={} cutoff={}", after.n, after.n + after.n / 2, after.cutoff));
        }
        if after.n > before.cutoff {
            return Err(format!("sweep with cutoff {} left n={}", before.cutoff, after.n));
        }
        // the documented rule, exactly: new = max(old, n + n/2 + 1) with n as left by the sweep
        let want = before.cutoff.max(after.n + after.n / 2 + 1);
        if after.cutoff != want {
            return Err(format!("growth rule: cutoff {} after the step, max(old = {}, n + n/2 + 1 = {}) = {} expected (n = {})", after.cutoff, before.cutoff, after.n + after.n / 2 + 1, want, after.n));
        }
        if after.len < before.cutoff {
            return Err(format!("container length {} below the cutoff {} the sweep used", after.len, before.cutoff));
        }
        if after.len != before.len.max(before.cutoff) {
            return Err(format!("container length {} after the sweep is not the cutoff the sweep used ({}, previous length {})", after.len, before.cutoff, before.len));
        }
    }
    Ok(())
}

/// 1 + index of the last occupied slot (0 for an empty string)
fn top_of(o: &Obs) -> usize {
    o.occ.iter().rposition(|b| *b).map(|p| p + 1).unwrap_or(0)
}

struct Tracker {
    grew: usize,
    steps: usize,
}

fn emit_step(site: &str, before: &Obs, after: &Obs, tr: &mut Tracker) {
    let nt = after.cutoff > before.cutoff || after.n > 0;
    if after.cutoff > before.cutoff {
        tr.grew += 1;
    }
    tr.steps += 1;
    emit(
        nt,
        &format!("step {} {} {} {}", site, before.cutoff, before.len, after.n),
        &format!("{} {}", after.cutoff, after.len),
        Some(oracle(before, after, true)),
    );
    // shape of the sweep: container padded to the cutoff, slots >= cutoff untouched
    let shape_ok = after.occ.len() == before.occ.len().max(before.cutoff)
        && (before.cutoff..after.occ.len()).all(|p| after.occ[p] == *before.occ.get(p).unwrap_or(&false));
    emit(
        nt,
        &format!("sweep {} {} {}", before.cutoff, bits(&before.occ), bits(&after.occ)),
        &format!("1 {}", after.n),
        Some(if shape_ok { Ok(()) } else { Err("slots at or above the cutoff changed / wrong container length".into()) }),
    );
}

// ---------------------------------------------------------------------------------------------
// Manual cutoff API calls between steps.  Public API read from the source:
//   Qmc:            `increase_cutoff_to(c)` (documented as "so long as the new value is larger"),
//                   `set_cutoff(c)`, trait `SwapManagers::set_op_cutoff(c)` (= set_cutoff)
//   QmcIsingGraph:  `set_cutoff(c)`, trait `set_op_cutoff(c)` (= set_cutoff); no increase_cutoff_to
// `increase_cutoff_to` is called with c below / equal / above the current cutoff; the raw setters are only
// ever called with c >= the current cutoff (lowering through them is the caller's own doing, outside C12).
// Oracle right after the call: cutoff == max(previous, c); container padded to it and never shrunk;
// n unchanged and <= cutoff; container length <= cutoff.
// ---------------------------------------------------------------------------------------------
fn manual_oracle(call: &str, c: usize, before: &Obs, after: &Obs) -> Result<(), String> {
    obj_oracle(call, before.cutoff, after)?;
    let want = before.cutoff.max(c);
    if after.cutoff != want {
        return Err(format!("{}({}) on cutoff {}: cutoff is {} instead of {} (n = {})", call, c, before.cutoff, after.cutoff, want, after.n));
    }
    if after.n != before.n || after.occ[..before.occ.len().min(after.occ.len())] != before.occ[..before.occ.len().min(after.occ.len())] {
        return Err(format!("{}({}) changed the operators", call, c));
    }
    if after.len != before.len.max(want) {
        return Err(format!("{}({}): container length {} instead of {}", call, c, after.len, before.len.max(want)));
    }
    Ok(())
}

/// c below / equal / above `cutoff`
fn pick_target(gen: &mut SplitMix64, cutoff: usize) -> (usize, &'static str) {
    match gen.below(5) {
        0 | 1 => (gen.below(cutoff.max(1) as u64) as usize, "below"),
        2 => (cutoff, "equal"),
        _ => (cutoff + 1 + gen.below(3) as usize, "above"),
    }
}

fn manual_call_q(gen: &mut SplitMix64, q: &mut Q) {
    let before = obs_q(q);
    match gen.below(4) {
        0 | 1 => {
            let (c, how) = pick_target(gen, before.cutoff);
            q.increase_cutoff_to(c);
            let after = obs_q(q);
            stat(&format!("manual_generic_increase_cutoff_to_{}", how), 1);
            emit(how != "equal", &format!("inccut {} {} {}", c, before.cutoff, bits(&before.occ)), &format!("{} {} {}", after.cutoff, after.len, after.n), Some(manual_oracle("increase_cutoff_to", c, &before, &after)));
        }
        k => {
            // raw setters: upwards only
            let c = before.cutoff + gen.below(3) as usize;
            if k == 2 {
                q.set_cutoff(c);
            } else {
                qmc::sse::parallel_tempering::SwapManagers::set_op_cutoff(q, c);
            }
            let after = obs_q(q);
            stat(if k == 2 { "manual_generic_set_cutoff_up" } else { "manual_generic_set_op_cutoff_up" }, 1);
            emit(c > before.cutoff, &format!("setcut {} {} {}", c, before.cutoff, bits(&before.occ)), &format!("{} {} {}", after.cutoff, after.len, after.n), Some(manual_oracle(if k == 2 { "set_cutoff" } else { "set_op_cutoff" }, c, &before, &after)));
        }
    }
}

fn manual_call_g(gen: &mut SplitMix64, g: &mut G) {
    let before = obs_g(g);
    let c = before.cutoff + gen.below(3) as usize;
    let trait_call = gen.coin();
    if trait_call {
        qmc::sse::parallel_tempering::SwapManagers::set_op_cutoff(g, c);
    } else {
        g.set_cutoff(c);
    }
    let after = obs_g(g);
    stat(if trait_call { "manual_ising_set_op_cutoff_up" } else { "manual_ising_set_cutoff_up" }, 1);
    emit(c > before.cutoff, &format!("setcut {} {} {}", c, before.cutoff, bits(&before.occ)), &format!("{} {} {}", after.cutoff, after.len, after.n), Some(manual_oracle(if trait_call { "set_op_cutoff" } else { "set_cutoff" }, c, &before, &after)));
}

// ---------------------------------------------------------------------------------------------
// Copies of a running sampler: `clone()` (both samplers), serde round trip of the sampler with its
// (serialisable) rng (both samplers), and the RNG-less `SerializeQmcGraph` + `into_qmc(rng)` form (Ising).
// Oracle: the copy reports the SAME cutoff as the original (never recomputed from n, never the constructor
// default), same container length, same occupied slots, same n; afterwards the usual invariants on the copy
// and on the original (both keep stepping).
// ---------------------------------------------------------------------------------------------
type SG = qmc::sse::qmc_ising::serialization::SerializeQmcGraph<qmc::sse::fast_ops::FastOps>;

fn emit_copy(how: &str, before: &Obs, after: &Obs, nmax: usize) {
    let mut o = obj_oracle(how, before.cutoff, after);
    if o.is_ok() && after.cutoff != before.cutoff {
        o = Err(format!("{}: cutoff changed across the copy {} -> {} (n = {})", how, before.cutoff, after.cutoff, after.n));
    }
    if o.is_ok() && (after.len != before.len || after.occ != before.occ || after.n != before.n) {
        o = Err(format!("{}: operators / container changed across the copy (len {} -> {}, n {} -> {})", how, before.len, after.len, before.n, after.n));
    }
    stat(&format!("copy_{}", how), 1);
    if before.n < nmax {
        stat(&format!("copy_{}_with_n_below_its_maximum", how), 1);
    }
    if before.len < before.cutoff {
        stat(&format!("copy_{}_right_after_growth", how), 1);
    }
    emit(before.n > 0, &format!("copy {} {} {}", how, before.cutoff, bits(&before.occ)), &format!("{} {} {}", after.cutoff, after.len, after.n), Some(o));
}

/// Replace `g` by a copy (or keep it and step the copy on the side). `nmax` = largest n seen so far.
fn copy_g(gen: &mut SplitMix64, g: G, beta: f64, nmax: usize, tr: &mut Tracker) -> G {
    let before = obs_g(&g);
    match gen.below(3) {
        0 => {
            let c = g.clone();
            emit_copy("ising-clone", &before, &obs_g(&c), nmax);
            // continue with one of them, step the other one on the side
            let (keep, mut side) = if gen.coin() { (g, c) } else { (c, g) };
            for _ in 0..2 {
                if !hist_step_g(&mut side, beta, "ising-copy-side", tr) {
                    break;
                }
            }
            keep
        }
        1 => {
            let text = serde_json::to_string(&g).unwrap();
            match serde_json::from_str::<G>(&text) {
                Ok(mut c) => {
                    emit_copy("ising-serde", &before, &obs_g(&c), nmax);
                    let mut orig = g;
                    let mut alive = true;
                    for _ in 0..2 {
                        if !hist_step_g(&mut orig, beta, "ising-copy-side", tr) {
                            alive = false; // a caught panic leaves the sampler without state/manager: drop it
                            break;
                        }
                    }
                    if alive && gen.coin() {
                        std::mem::swap(&mut c, &mut orig);
                    }
                    c
                }
                Err(e) => {
                    emit(true, &format!("copy ising-serde {} {}", before.cutoff, bits(&before.occ)), "error", Some(Err(format!("restore failed: {}", e))));
                    g
                }
            }
        }
        _ => {
            // RNG-less snapshot form; consumes the sampler like the API does
            let side = g.clone();
            let (sg, rng): (SG, SplitMix64) = g.into();
            let text = serde_json::to_string(&sg).unwrap();
            match serde_json::from_str::<SG>(&text) {
                Ok(sg2) => {
                    let c = sg2.into_qmc(rng);
                    emit_copy("ising-rngless", &before, &obs_g(&c), nmax);
                    c
                }
                Err(e) => {
                    emit(true, &format!("copy ising-rngless {} {}", before.cutoff, bits(&before.occ)), "error", Some(Err(format!("restore failed: {}", e))));
                    side
                }
            }
        }
    }
}

fn copy_q(gen: &mut SplitMix64, q: Q, beta: f64, nmax: usize, tr: &mut Tracker) -> Q {
    let before = obs_q(&q);
    if gen.coin() {
        let c = q.clone();
        emit_copy("generic-clone", &before, &obs_q(&c), nmax);
        let (keep, mut side) = if gen.coin() { (q, c) } else { (c, q) };
        for _ in 0..2 {
            if !hist_step_q(&mut side, beta, "generic-copy-side", tr) {
                break;
            }
        }
        keep
    } else {
        let text = serde_json::to_string(&q).unwrap();
        match serde_json::from_str::<Q>(&text) {
            Ok(mut c) => {
                emit_copy("generic-serde", &before, &obs_q(&c), nmax);
                let mut orig = q;
                let mut alive = true;
                for _ in 0..2 {
                    if !hist_step_q(&mut orig, beta, "generic-copy-side", tr) {
                        alive = false;
                        break;
                    }
                }
                if alive && gen.coin() {
                    std::mem::swap(&mut c, &mut orig);
                }
                c
            }
            Err(e) => {
                emit(true, &format!("copy generic-serde {} {}", before.cutoff, bits(&before.occ)), "error", Some(Err(format!("restore failed: {}", e))));
                q
            }
        }
    }
}

/// Run at large beta (the operator count and the cutoff grow), then at small beta (the count drops, the
/// cutoff must stay): copies are taken in the second phase, where n is below its all-time maximum.
fn run_beta_switch(gen: &mut SplitMix64, steps: usize, tr: &mut Tracker) {
    let nv = gen.range(2, 5) as usize;
    let edges = make_edges(gen, nv, true);
    let gamma = *gen.pick(&[0.5, 1.0, 2.0]);
    let c0 = 1 + gen.below(3) as usize;
    let (b_cold, b_hot) = (*gen.pick(&[4.0, 8.0]), *gen.pick(&[0.25, 0.5]));
    // Ising
    let mut g = G::new_with_rng(edges.clone(), gamma, 0.0, c0, SplitMix64::new(gen.next()), None);
    let mut nmax = 0;
    for t in 0..steps {
        let beta = if t < steps / 2 { b_cold } else { b_hot };
        if t > steps / 2 && gen.chance(1, 3) {
            g = copy_g(gen, g, beta, nmax, tr);
        }
        if !hist_step_g(&mut g, beta, "ising-cold-then-hot", tr) {
            return;
        }
        nmax = nmax.max(QmcStepper::get_n(&g));
    }
    // generic (built directly and by conversion)
    let js: Vec<f64> = (0..nv - 1).map(|_| 1.0).collect();
    let mut q = if gen.coin() { make_generic(gen.next(), nv, gamma, &js) } else { G::new_with_rng(edges, gamma, 0.0, c0, SplitMix64::new(gen.next()), None).into_qmc() };
    let mut nmax = 0;
    for t in 0..steps {
        let beta = if t < steps / 2 { b_cold } else { b_hot };
        if t > steps / 2 && gen.chance(1, 3) {
            q = copy_q(gen, q, beta, nmax, tr);
        }
        if !hist_step_q(&mut q, beta, "generic-cold-then-hot", tr) {
            return;
        }
        nmax = nmax.max(QmcStepper::get_n(&q));
    }
}

#[derive(Clone, Copy, Debug, PartialEq, Eq)]
enum Mix {
    Plain,
    Rvb,
    HeatBath,
    RvbHeatBath,
    Split,
}

fn make_edges(gen: &mut SplitMix64, nv: usize, equal_mag: bool) -> Vec<((usize, usize), f64)> {
    let mut e = vec![];
    let shape = gen.below(3);
    let mag = *gen.pick(&[0.5, 1.0, 1.5, 2.0]);
    let mut j = |gen: &mut SplitMix64| -> f64 {
        let m = if equal_mag { mag } else { *gen.pick(&[0.25, 0.5, 1.0, 1.5, 2.0]) };
        if gen.coin() { m } else { -m }
    };
    for a in 0..nv - 1 {
        e.push(((a, a + 1), j(gen)));
    }
    if shape >= 1 && nv > 2 {
        e.push(((nv - 1, 0), j(gen)));
    }
    if shape == 2 && nv > 3 {
        e.push(((0, 2), j(gen)));
    }
    e
}

fn run_ising(gen: &mut SplitMix64, steps: usize, init_cutoff_kind: usize, mix: Mix, tr: &mut Tracker) {
    let nv = gen.range(2, 6) as usize;
    let rvb = matches!(mix, Mix::Rvb | Mix::RvbHeatBath | Mix::Split);
    let edges = make_edges(gen, nv, rvb);
    let gamma = *gen.pick(&[0.25, 0.5, 1.0, 2.0]);
    let h = if gen.chance(1, 3) { *gen.pick(&[-1.0, -0.5, 0.5, 1.0]) } else { 0.0 };
    let beta = *gen.pick(&[0.5, 1.0, 2.0, 4.0, 8.0, 16.0]);
    let cutoff = match init_cutoff_kind {
        0 => 1,
        1 => 2,
        2 => 3,
        3 => nv,
        _ => 1 + gen.below(3) as usize, // far below beta*|E| for the larger betas
    };
    let seed = gen.next();
    stat(&format!("ising_mix_{:?}", mix), 1);
    stat(&format!("init_cutoff_{}", cutoff), 1);
    stat(if h != 0.0 { "ising_h_nonzero" } else { "ising_h_zero" }, 1);
    let mut g = G::new_with_rng(edges.clone(), gamma, h, cutoff, SplitMix64::new(seed), None);
    // constructor
    let o = obs_g(&g);
    emit(false, &format!("new ising {}", cutoff), &format!("{} {}", o.cutoff, o.len), Some(if o.cutoff == cutoff && o.n == 0 { Ok(()) } else { Err("constructor cutoff".into()) }));
    match mix {
        Mix::Rvb | Mix::Split => g.set_run_rvb(mix == Mix::Rvb),
        Mix::HeatBath => g.set_enable_heatbath(true),
        Mix::RvbHeatBath => {
            g.set_run_rvb(true);
            g.set_enable_heatbath(true)
        }
        Mix::Plain => {}
    }
    let label = format!("ising-{:?}", mix).to_lowercase();
    let mut nmax_seen = 0usize;
    for _ in 0..steps {
        if gen.chance(1, 6) {
            manual_call_g(gen, &mut g);
        }
        if gen.chance(1, 8) {
            nmax_seen = nmax_seen.max(QmcStepper::get_n(&g));
            g = copy_g(gen, g, beta, nmax_seen, tr);
        }
        nmax_seen = nmax_seen.max(QmcStepper::get_n(&g));
        let before = obs_g(&g);
        let r = catch(|| {
            if mix == Mix::Split {
                g.single_diagonal_step(beta);
                let mid = obs_g(&g);
                g.single_rvb_sweep(None);
                g.single_cluster_step();
                mid
            } else {
                g.timestep(beta);
                obs_g(&g)
            }
        });
        match r {
            Ok(mid) => {
                let after = obs_g(&g);
                if mix == Mix::Split {
                    // the rule sits in single_diagonal_step; the other two moves must not touch cutoff/len/n
                    emit_step("ising-single_diagonal_step", &before, &mid, tr);
                    let same = mid.cutoff == after.cutoff && mid.len == after.len && mid.n == after.n && mid.occ == after.occ;
                    emit(
                        false,
                        &format!("idle ising-rvb+cluster {} {} {}", mid.cutoff, mid.len, mid.n),
                        &format!("{} {} {}", after.cutoff, after.len, after.n),
                        Some(if same { Ok(()) } else { Err("rvb/cluster moves changed occupancy, count or cutoff".into()) }),
                    );
                } else {
                    emit_step(&label, &before, &after, tr);
                }
            }
            Err(p) => {
                emit(true, &format!("step {} {} {} 0", label, before.cutoff, before.len), "panic", Some(Err(format!("step panicked: {} (nv={} edges={:?} gamma={} h={} beta={} cutoff0={})", p, nv, edges, gamma, h, beta, cutoff))));
                return;
            }
        }
    }
}

fn run_generic(gen: &mut SplitMix64, steps: usize, one_spin: bool, tr: &mut Tracker) {
    let nv = if one_spin { 1 } else { gen.range(2, 5) as usize };
    let loops = gen.coin();
    let heat = gen.chance(1, 3);
    let beta = *gen.pick(&[0.5, 1.0, 2.0, 4.0, 8.0, 16.0]);
    let seed = gen.next();
    let mut q = Q::new_with_state(nv, SplitMix64::new(seed), vec![false; nv], loops);
    let o = obs_q(&q);
    emit(one_spin, &format!("new generic {}", nv), &format!("{} {}", o.cutoff, o.len), Some(if o.cutoff == nv { Ok(()) } else { Err("constructor cutoff".into()) }));
    let gamma = *gen.pick(&[0.5, 1.0, 2.0]);
    for v in 0..nv {
        q.make_interaction(vec![gamma; 4], vec![v]).unwrap();
    }
    if gen.coin() {
        // a diagonal field term on every spin (breaks the Ising symmetry: no cluster updates)
        let a = *gen.pick(&[0.5, 1.0]);
        for v in 0..nv {
            q.make_diagonal_interaction(vec![a, 0.0], vec![v]).unwrap();
        }
    }
    for v in 0..nv.saturating_sub(1) {
        let j = *gen.pick(&[-1.0, -0.5, 0.5, 1.0]);
        q.make_diagonal_interaction_and_offset(vec![-j, j, j, -j], vec![v, v + 1]).unwrap();
    }
    q.set_do_heatbath(heat);
    stat(if one_spin { "generic_one_spin" } else { "generic_multi_spin" }, 1);
    stat(if loops { "generic_loops" } else { "generic_noloops" }, 1);
    stat(if heat { "generic_heatbath" } else { "generic_metropolis" }, 1);
    let use_parts = gen.coin();
    let mut nmax_seen = 0usize;
    let label = format!("generic{}{}{}", if one_spin { "-1spin" } else { "" }, if loops { "-loop" } else { "" }, if heat { "-hb" } else { "" });
    for _ in 0..steps {
        if gen.chance(1, 4) {
            manual_call_q(gen, &mut q);
        }
        nmax_seen = nmax_seen.max(QmcStepper::get_n(&q));
        if gen.chance(1, 8) {
            q = copy_q(gen, q, beta, nmax_seen, tr);
        }
        let before = obs_q(&q);
        let r = catch(|| {
            if use_parts {
                q.diagonal_update(beta);
                let mid = obs_q(&q);
                if q.should_do_loop_update() {
                    q.loop_update();
                }
                if q.should_do_cluster_update() {
                    q.cluster_update().unwrap();
                }
                q.flip_free_bits();
                mid
            } else {
                q.timestep(beta);
                obs_q(&q)
            }
        });
        match r {
            Ok(mid) => {
                let after = obs_q(&q);
                if use_parts {
                    emit_step(&format!("{}-diagonal_update", label), &before, &mid, tr);
                    let same = mid.cutoff == after.cutoff && mid.len == after.len && mid.n == after.n && mid.occ == after.occ;
                    emit(
                        false,
                        &format!("idle generic-loop+cluster {} {} {}", mid.cutoff, mid.len, mid.n),
                        &format!("{} {} {}", after.cutoff, after.len, after.n),
                        Some(if same { Ok(()) } else { Err("loop/cluster moves changed occupancy, count or cutoff".into()) }),
                    );
                } else {
                    emit_step(&label, &before, &after, tr);
                }
            }
            Err(p) => {
                emit(true, &format!("step {} {} {} 0", label, before.cutoff, before.len), "panic", Some(Err(format!("step panicked: {}", p))));
                return;
            }
        }
    }
    // and once more at the end of the run, with operators in the string
    manual_call_q(gen, &mut q);
    manual_call_q(gen, &mut q);
}

// ---------------------------------------------------------------------------------------------
// Histories that mix time steps with the other public calls that touch a cutoff: the raw
// `swap_manager_and_state` (both directions, unequal cutoffs, partner freshly built / after a growing
// step / after a non-growing step), `set_cutoff` upwards, `into_qmc()` after k steps.  The C12
// oracle runs after EVERY public call, per sampler object:
//   (a) the reported cutoff of an object never decreases,
//   (b) cutoff >= n (and a free slot survives a swap when both sides had one),
//   (c) container length <= cutoff (every operator sits below the cutoff of the next sweep),
//   (d) a swap exchanges the operator counts, a conversion keeps n and does not lower the cutoff.
// ---------------------------------------------------------------------------------------------

fn obj_oracle(who: &str, cutoff_before: usize, after: &Obs) -> Result<(), String> {
    let counted = after.occ.iter().filter(|b| **b).count();
    if counted != after.n {
        return Err(format!("{}: get_n()={} but {} occupied slots", who, after.n, counted));
    }
    if after.cutoff < cutoff_before {
        return Err(format!("{}: reported cutoff shrank {} -> {}", who, cutoff_before, after.cutoff));
    }
    if after.n > after.cutoff {
        return Err(format!("{}: cutoff {} is smaller than the operator count n = {}", who, after.cutoff, after.n));
    }
    if after.len > after.cutoff {
        return Err(format!("{}: container length {} exceeds the sampler cutoff {} (n = {})", who, after.len, after.cutoff, after.n));
    }
    Ok(())
}

fn emit_swap(site: &str, a0: &Obs, b0: &Obs, a1: &Obs, b1: &Obs) {
    let mut o = obj_oracle("self", a0.cutoff, a1).and(obj_oracle("other", b0.cutoff, b1));
    if o.is_ok() && (a1.n != b0.n || b1.n != a0.n) {
        o = Err(format!("swap did not exchange the operator strings: n {}|{} -> {}|{}", a0.n, b0.n, a1.n, b1.n));
    }
    if o.is_ok() && a0.n < a0.cutoff && b0.n < b0.cutoff && (a1.n >= a1.cutoff || b1.n >= b1.cutoff) {
        o = Err(format!("no free slot after the swap: self n={} cutoff={}, other n={} cutoff={}", a1.n, a1.cutoff, b1.n, b1.cutoff));
    }
    emit(
        a0.cutoff != b0.cutoff,
        &format!("swap {} {} {} {} {}", site, a0.cutoff, bits(&a0.occ), b0.cutoff, bits(&b0.occ)),
        &format!("{} {} {} {} {} {}", a1.cutoff, a1.len, a1.n, b1.cutoff, b1.len, b1.n),
        Some(o),
    );
}

fn emit_convert(nv: usize, g0: &Obs, q1: &Obs) {
    let mut o = obj_oracle("converted", g0.cutoff, q1);
    if o.is_ok() && q1.n != g0.n {
        o = Err(format!("into_qmc changed the operator count {} -> {}", g0.n, q1.n));
    }
    if o.is_ok() && q1.len < g0.len {
        o = Err(format!("into_qmc shrank the container {} -> {}", g0.len, q1.len));
    }
    emit(g0.n > 0, &format!("convert {} {} {}", nv, g0.cutoff, bits(&g0.occ)), &format!("{} {} {}", q1.cutoff, q1.len, q1.n), Some(o));
}

/// one Ising `timestep` with the step oracle; false if it panicked
fn hist_step_g(g: &mut G, beta: f64, label: &str, tr: &mut Tracker) -> bool {
    let before = obs_g(g);
    match catch(|| {
        g.timestep(beta);
    }) {
        Ok(()) => {
            let after = obs_g(g);
            emit_step(label, &before, &after, tr);
            true
        }
        Err(p) => {
            emit(true, &format!("step {} {} {} {}", label, before.cutoff, before.len, before.n), "panic", Some(Err(format!("step panicked: {} (cutoff={} len={} n={})", p, before.cutoff, before.len, before.n))));
            false
        }
    }
}
fn hist_step_q(q: &mut Q, beta: f64, label: &str, tr: &mut Tracker) -> bool {
    let before = obs_q(q);
    match catch(|| {
        q.timestep(beta);
    }) {
        Ok(()) => {
            let after = obs_q(q);
            emit_step(label, &before, &after, tr);
            true
        }
        Err(p) => {
            emit(true, &format!("step {} {} {} {}", label, before.cutoff, before.len, before.n), "panic", Some(Err(format!("step panicked: {} (cutoff={} len={} n={})", p, before.cutoff, before.len, before.n))));
            false
        }
    }
}

/// how the partner that holds the larger cutoff got its container: tag for the input distribution
fn partner_tag(fresh: bool, grew_last: bool) -> &'static str {
    if fresh {
        "fresh"
    } else if grew_last {
        "after_growing_step"
    } else {
        "after_nongrowing_step"
    }
}

fn run_history_ising(gen: &mut SplitMix64, nactions: usize, tr: &mut Tracker) {
    let nv = gen.range(2, 5) as usize;
    let edges = make_edges(gen, nv, true);
    let gamma = *gen.pick(&[0.5, 1.0, 2.0]);
    let h = if gen.chance(1, 4) { *gen.pick(&[-0.5, 0.5]) } else { 0.0 };
    let (beta_a, beta_b) = (*gen.pick(&[2.0, 4.0, 8.0]), *gen.pick(&[0.5, 1.0, 8.0]));
    let small = |gen: &mut SplitMix64| 1 + gen.below(3) as usize;
    let fresh = |gen: &mut SplitMix64, cutoff: usize| G::new_with_rng(edges.clone(), gamma, h, cutoff, SplitMix64::new(gen.next()), None);
    let ca = if gen.coin() { small(gen) } else { 10 + gen.below(40) as usize };
    let cb = if gen.coin() { small(gen) } else { 10 + gen.below(40) as usize };
    let mut a = fresh(gen, ca);
    let mut b = fresh(gen, cb);
    // (fresh?, did the last step grow the cutoff?) per object
    let (mut fa, mut fb, mut ga, mut gb) = (true, true, false, false);
    for _ in 0..nactions {
        match gen.below(10) {
            0..=2 => {
                let c0 = a.get_cutoff();
                if !hist_step_g(&mut a, beta_a, "hist-ising-A", tr) {
                    return;
                }
                fa = false;
                ga = a.get_cutoff() > c0;
            }
            3..=4 => {
                let c0 = b.get_cutoff();
                if !hist_step_g(&mut b, beta_b, "hist-ising-B", tr) {
                    return;
                }
                fb = false;
                gb = b.get_cutoff() > c0;
            }
            5 | 6 => {
                // raw public swap, both call directions
                let (a0, b0) = (obs_g(&a), obs_g(&b));
                let dir = gen.coin();
                if a0.cutoff != b0.cutoff {
                    let tag = if a0.cutoff > b0.cutoff { partner_tag(fa, ga) } else { partner_tag(fb, gb) };
                    stat(&format!("swap_ising_larger_partner_{}", tag), 1);
                } else {
                    stat("swap_ising_equal_cutoffs", 1);
                }
                if dir {
                    a.swap_manager_and_state(&mut b);
                    emit_swap("ising", &a0, &b0, &obs_g(&a), &obs_g(&b));
                } else {
                    b.swap_manager_and_state(&mut a);
                    emit_swap("ising", &b0, &a0, &obs_g(&b), &obs_g(&a));
                }
                // containers are exchanged: so are the "fresh / grew" attributes of what each object holds
                std::mem::swap(&mut fa, &mut fb);
                std::mem::swap(&mut ga, &mut gb);
            }
            7 => {
                // partner rebuilt: tiny or generous cutoff (the constructor pre-sizes the container)
                let c = if gen.coin() { small(gen) } else { a.get_cutoff() + gen.below(30) as usize };
                b = fresh(gen, c);
                let o = obs_g(&b);
                emit(false, &format!("new ising {}", c), &format!("{} {}", o.cutoff, o.len), Some(obj_oracle("fresh", c, &o)));
                fb = true;
                gb = false;
            }
            8 => {
                let before = obs_g(&a);
                let target = before.cutoff + gen.below(6) as usize;
                a.set_cutoff(target);
                let after = obs_g(&a);
                emit(false, &format!("setcut {} {} {}", target, before.cutoff, bits(&before.occ)), &format!("{} {} {}", after.cutoff, after.len, after.n), Some(obj_oracle("set_cutoff", before.cutoff, &after)));
            }
            _ => {
                // conversion after k steps, then keep stepping the converted sampler
                let g0 = obs_g(&a);
                let ac = a.clone();
                match catch(move || ac.into_qmc()) {
                    Ok(mut q) => {
                        let q1 = obs_q(&q);
                        stat(if g0.cutoff > nv { "convert_cutoff_above_nvars" } else { "convert_cutoff_le_nvars" }, 1);
                        emit_convert(nv, &g0, &q1);
                        for _ in 0..3 {
                            if !hist_step_q(&mut q, beta_a, "hist-converted", tr) {
                                break;
                            }
                        }
                    }
                    Err(p) => emit(true, &format!("convert {} {} {}", nv, g0.cutoff, bits(&g0.occ)), "panic", Some(Err(format!("into_qmc panicked: {}", p)))),
                }
            }
        }
    }
}

fn make_generic(gen_seed: u64, nv: usize, gamma: f64, js: &[f64]) -> Q {
    let mut q = Q::new_with_state(nv, SplitMix64::new(gen_seed), vec![false; nv], false);
    for v in 0..nv {
        q.make_interaction(vec![gamma; 4], vec![v]).unwrap();
    }
    for (v, j) in js.iter().enumerate() {
        q.make_diagonal_interaction_and_offset(vec![-j, *j, *j, -j], vec![v, v + 1]).unwrap();
    }
    q
}

fn run_history_generic(gen: &mut SplitMix64, nactions: usize, tr: &mut Tracker) {
    let nv = gen.range(1, 4) as usize;
    let gamma = *gen.pick(&[0.5, 1.0, 2.0]);
    let js: Vec<f64> = (0..nv - 1).map(|_| *gen.pick(&[-1.0, 0.5, 1.0])).collect();
    let (beta_a, beta_b) = (*gen.pick(&[2.0, 4.0, 8.0]), *gen.pick(&[0.5, 1.0, 8.0]));
    let mut a = make_generic(gen.next(), nv, gamma, &js);
    let mut b = make_generic(gen.next(), nv, gamma, &js);
    if gen.coin() {
        a.increase_cutoff_to(10 + gen.below(30) as usize);
    }
    let (mut fa, mut fb, mut ga, mut gb) = (true, true, false, false);
    for _ in 0..nactions {
        match gen.below(8) {
            0..=2 => {
                let c0 = a.get_cutoff();
                if !hist_step_q(&mut a, beta_a, "hist-generic-A", tr) {
                    return;
                }
                fa = false;
                ga = a.get_cutoff() > c0;
            }
            3 => {
                let c0 = b.get_cutoff();
                if !hist_step_q(&mut b, beta_b, "hist-generic-B", tr) {
                    return;
                }
                fb = false;
                gb = b.get_cutoff() > c0;
            }
            4 | 5 => {
                let (a0, b0) = (obs_q(&a), obs_q(&b));
                if a0.cutoff != b0.cutoff {
                    let tag = if a0.cutoff > b0.cutoff { partner_tag(fa, ga) } else { partner_tag(fb, gb) };
                    stat(&format!("swap_generic_larger_partner_{}", tag), 1);
                } else {
                    stat("swap_generic_equal_cutoffs", 1);
                }
                if gen.coin() {
                    a.swap_manager_and_state(&mut b);
                    emit_swap("generic", &a0, &b0, &obs_q(&a), &obs_q(&b));
                } else {
                    b.swap_manager_and_state(&mut a);
                    emit_swap("generic", &b0, &a0, &obs_q(&b), &obs_q(&a));
                }
                std::mem::swap(&mut fa, &mut fb);
                std::mem::swap(&mut ga, &mut gb);
            }
            6 => {
                b = make_generic(gen.next(), nv, gamma, &js);
                if gen.coin() {
                    // generous cutoff, container sized by set_cutoff
                    b.increase_cutoff_to(a.get_cutoff() + gen.below(20) as usize);
                }
                let o = obs_q(&b);
                emit(false, &format!("idle fresh-generic {} {} {}", o.cutoff, o.len, o.n), &format!("{} {} {}", o.cutoff, o.len, o.n), Some(obj_oracle("fresh", nv, &o)));
                fb = true;
                gb = false;
            }
            _ => {
                manual_call_q(gen, &mut a);
            }
        }
    }
}

// ---------------------------------------------------------------------------------------------
// USER-SUPPLIED CUTOFFS IN THE MIDDLE OF A RUN ("whatever initial cutoff the user supplied" applies to a
// cutoff handed to a sampler that already holds operators as well).  Between steps the cutoff is set by hand
//   * to the container's slot count (`set_cutoff(get_manager_ref().get_cutoff())` — right after a growing
//     step that is the previous, smaller cutoff),
//   * to the smallest value the string fits into (1 + last occupied slot; = n for a dense string),
//   * to a value in [that, n + n/2 + 1): fits the string, lacks the margin,
// through `set_cutoff`, the tempering trait's `set_op_cutoff`, or by rebuilding the sampler around a clone of
// the container and the state through the manager hook of the constructor with that cutoff.  Always with
// every operator below the new cutoff (a cutoff below an operator is outside the sweep's domain).  Then one
// step through `timestep` or through `single_diagonal_step` (+ cluster) / `diagonal_update` (+ parts): the
// ordinary step oracle — free slot, margin n + n/2 + 1 <= cutoff, exact rule max(old, n + n/2 + 1) — must
// hold after that very step, whether or not the step added operators.
// ---------------------------------------------------------------------------------------------
fn pick_user_cutoff(gen: &mut SplitMix64, o: &Obs) -> (usize, &'static str) {
    let lo = top_of(o).max(o.n); // top >= n always
    let hi = o.n + o.n / 2 + 1; // first value that has the margin
    match gen.below(4) {
        0 => (o.len.max(lo), "slot_count"),
        1 => (lo, "tight"),
        _ => {
            if lo < hi {
                (lo + gen.below((hi - lo) as u64) as usize, "fits_without_margin")
            } else {
                (lo + gen.below(3) as usize, "sparse_string")
            }
        }
    }
}

fn user_oracle(call: &str, c: usize, before: &Obs, after: &Obs) -> Result<(), String> {
    let counted = after.occ.iter().filter(|b| **b).count();
    if counted != after.n {
        return Err(format!("{}: get_n()={} but {} occupied slots", call, after.n, counted));
    }
    if after.cutoff != c {
        return Err(format!("{}({}): the sampler reports cutoff {}", call, c, after.cutoff));
    }
    if after.len != before.len.max(c) {
        return Err(format!("{}({}): container length {} instead of {}", call, c, after.len, before.len.max(c)));
    }
    if after.n != before.n || after.occ[..before.occ.len()] != before.occ[..] {
        return Err(format!("{}({}) changed the operators", call, c));
    }
    if top_of(after) > after.cutoff || after.n > after.cutoff {
        return Err(format!("{}({}): generator bug, the string does not fit", call, c));
    }
    Ok(())
}

fn note_user_cutoff(kind: &str, how: &str, c: usize, o: &Obs) {
    stat(&format!("usercut_{}_{}", kind, how), 1);
    if c < o.n + o.n / 2 + 1 {
        stat(&format!("usercut_{}_below_margin", kind), 1);
    }
    if c == o.n && o.n > 0 {
        stat(&format!("usercut_{}_equal_n", kind), 1);
    }
    if c < o.cutoff {
        stat(&format!("usercut_{}_lowers_the_cutoff", kind), 1);
    }
    if c < o.len {
        stat(&format!("usercut_{}_below_slot_count", kind), 1);
    }
}

fn run_user_cutoff_ising(gen: &mut SplitMix64, steps: usize, tr: &mut Tracker) {
    let nv = gen.range(2, 5) as usize;
    let rvb = gen.chance(1, 4);
    let edges = make_edges(gen, nv, rvb);
    let gamma = *gen.pick(&[0.25, 0.5, 1.0, 2.0]);
    let h = if gen.chance(1, 4) { *gen.pick(&[-0.5, 0.5]) } else { 0.0 };
    let beta = *gen.pick(&[1.0, 2.0, 4.0, 8.0]);
    let c0 = if gen.coin() { 1 + gen.below(3) as usize } else { 5 + gen.below(30) as usize };
    let hb = gen.coin();
    let path = gen.below(3); // 0 timestep, 1 single_diagonal_step + cluster, 2 either per step
    let mut g = G::new_with_rng(edges.clone(), gamma, h, c0, SplitMix64::new(gen.next()), None);
    let apply_opts = |g: &mut G| {
        if hb {
            g.set_enable_heatbath(true);
        }
        if rvb {
            g.set_run_rvb(true);
        }
    };
    apply_opts(&mut g);
    stat("usercut_ising_runs", 1);
    for t in 0..steps {
        if t >= 1 && gen.chance(2, 3) {
            let before = obs_g(&g);
            let (c, how) = pick_user_cutoff(gen, &before);
            note_user_cutoff("ising", how, c, &before);
            let nt = c < before.n + before.n / 2 + 1;
            match gen.below(3) {
                0 => {
                    g.set_cutoff(c);
                    let after = obs_g(&g);
                    emit(nt, &format!("usercut ising-set_cutoff {} {} {}", c, before.cutoff, bits(&before.occ)), &format!("{} {} {} 1", after.cutoff, after.len, after.n), Some(user_oracle("set_cutoff", c, &before, &after)));
                }
                1 => {
                    qmc::sse::parallel_tempering::SwapManagers::set_op_cutoff(&mut g, c);
                    let after = obs_g(&g);
                    emit(nt, &format!("usercut ising-set_op_cutoff {} {} {}", c, before.cutoff, bits(&before.occ)), &format!("{} {} {} 1", after.cutoff, after.len, after.n), Some(user_oracle("set_op_cutoff", c, &before, &after)));
                }
                _ => {
                    // snapshot (container + state), restore into a new sampler with the cutoff `c`
                    let manager = g.get_manager_ref().clone();
                    let state = g.clone_state();
                    let r = catch(|| G::new_with_rng_with_manager_hook(edges.clone(), gamma, h, c, SplitMix64::new(gen.next()), Some(state), |_, _| manager.clone()));
                    match r {
                        Ok(mut g2) => {
                            apply_opts(&mut g2);
                            let after = obs_g(&g2);
                            stat("usercut_ising_restored_through_manager_hook", 1);
                            emit(nt, &format!("restore ising-manager_hook {} {}", c, bits(&before.occ)), &format!("{} {} {} 1", after.cutoff, after.len, after.n), Some(user_oracle("new_with_rng_with_manager_hook", c, &before, &after)));
                            g = g2;
                        }
                        Err(p) => {
                            emit(true, &format!("restore ising-manager_hook {} {}", c, bits(&before.occ)), "panic", Some(Err(format!("restore panicked: {}", p))));
                            return;
                        }
                    }
                }
            }
        }
        let split = path == 1 || (path == 2 && gen.coin());
        let before = obs_g(&g);
        let r = catch(|| {
            if split {
                g.single_diagonal_step(beta);
                let mid = obs_g(&g);
                if rvb {
                    g.single_rvb_sweep(None);
                }
                g.single_cluster_step();
                mid
            } else {
                g.timestep(beta);
                obs_g(&g)
            }
        });
        let label = format!("user-ising{}{}-{}", if hb { "-hb" } else { "" }, if rvb { "-rvb" } else { "" }, if split { "single_diagonal_step" } else { "timestep" });
        match r {
            Ok(mid) => {
                let after = obs_g(&g);
                if before.cutoff < before.n + before.n / 2 + 1 {
                    stat("usercut_ising_steps_entered_without_margin", 1);
                    if mid.n <= before.n {
                        stat(if split { "usercut_ising_single_diagonal_steps_without_margin_adding_no_operator" } else { "usercut_ising_timesteps_without_margin_adding_no_operator" }, 1);
                    }
                }
                emit_step(&label, &before, &mid, tr);
                if split {
                    let same = mid.cutoff == after.cutoff && mid.len == after.len && mid.n == after.n && mid.occ == after.occ;
                    emit(false, &format!("idle ising-rvb+cluster {} {} {}", mid.cutoff, mid.len, mid.n), &format!("{} {} {}", after.cutoff, after.len, after.n), Some(if same { Ok(()) } else { Err("rvb/cluster moves changed occupancy, count or cutoff".into()) }));
                }
            }
            Err(p) => {
                emit(true, &format!("step {} {} {} {}", label, before.cutoff, before.len, before.n), "panic", Some(Err(format!("step panicked: {} (cutoff={} len={} n={} top={})", p, before.cutoff, before.len, before.n, top_of(&before)))));
                return;
            }
        }
    }
}

fn run_user_cutoff_generic(gen: &mut SplitMix64, steps: usize, tr: &mut Tracker) {
    let nv = gen.range(1, 4) as usize;
    let gamma = *gen.pick(&[0.5, 1.0, 2.0]);
    let js: Vec<f64> = (0..nv - 1).map(|_| *gen.pick(&[-1.0, 0.5, 1.0])).collect();
    let beta = *gen.pick(&[1.0, 2.0, 4.0, 8.0]);
    let hb = gen.coin();
    let converted = nv >= 2 && gen.coin();
    let path = gen.below(3);
    let ising_edges: Vec<((usize, usize), f64)> = js.iter().enumerate().map(|(v, j)| ((v, v + 1), *j)).collect();
    let mut q = if converted {
        G::new_with_rng(ising_edges.clone(), gamma, 0.0, 1 + gen.below(3) as usize, SplitMix64::new(gen.next()), None).into_qmc()
    } else {
        make_generic(gen.next(), nv, gamma, &js)
    };
    q.set_do_heatbath(hb);
    stat("usercut_generic_runs", 1);
    for t in 0..steps {
        if t >= 1 && gen.chance(2, 3) {
            let before = obs_q(&q);
            let (c, how) = pick_user_cutoff(gen, &before);
            note_user_cutoff("generic", how, c, &before);
            let nt = c < before.n + before.n / 2 + 1;
            match gen.below(3) {
                0 => {
                    q.set_cutoff(c);
                    let after = obs_q(&q);
                    emit(nt, &format!("usercut generic-set_cutoff {} {} {}", c, before.cutoff, bits(&before.occ)), &format!("{} {} {} 1", after.cutoff, after.len, after.n), Some(user_oracle("set_cutoff", c, &before, &after)));
                }
                1 => {
                    qmc::sse::parallel_tempering::SwapManagers::set_op_cutoff(&mut q, c);
                    let after = obs_q(&q);
                    emit(nt, &format!("usercut generic-set_op_cutoff {} {} {}", c, before.cutoff, bits(&before.occ)), &format!("{} {} {} 1", after.cutoff, after.len, after.n), Some(user_oracle("set_op_cutoff", c, &before, &after)));
                }
                _ => {
                    // restore: a new sampler around a clone of the container (manager hook of the constructor),
                    // the same interactions, then the user's cutoff
                    let manager = q.get_manager_ref().clone();
                    let state = q.clone_state();
                    let seed = gen.next();
                    let r = catch(|| {
                        let mut q2 = Q::new_with_state_with_manager_hook(nv, SplitMix64::new(seed), state, false, |_| manager.clone());
                        for v in 0..nv {
                            q2.make_interaction(vec![gamma; 4], vec![v]).unwrap();
                        }
                        for (v, j) in js.iter().enumerate() {
                            q2.make_diagonal_interaction_and_offset(vec![-j, *j, *j, -j], vec![v, v + 1]).unwrap();
                        }
                        q2.set_do_heatbath(hb);
                        q2.set_cutoff(c);
                        q2
                    });
                    match r {
                        Ok(q2) => {
                            let after = obs_q(&q2);
                            stat("usercut_generic_restored_through_manager_hook", 1);
                            emit(nt, &format!("restore generic-manager_hook {} {}", c, bits(&before.occ)), &format!("{} {} {} 1", after.cutoff, after.len, after.n), Some(user_oracle("new_with_state_with_manager_hook + set_cutoff", c, &before, &after)));
                            q = q2;
                        }
                        Err(p) => {
                            emit(true, &format!("restore generic-manager_hook {} {}", c, bits(&before.occ)), "panic", Some(Err(format!("restore panicked: {}", p))));
                            return;
                        }
                    }
                }
            }
        }
        let split = path == 1 || (path == 2 && gen.coin());
        let before = obs_q(&q);
        let r = catch(|| {
            if split {
                q.diagonal_update(beta);
                let mid = obs_q(&q);
                if q.should_do_cluster_update() {
                    q.cluster_update().unwrap();
                }
                q.flip_free_bits();
                mid
            } else {
                q.timestep(beta);
                obs_q(&q)
            }
        });
        let label = format!("user-generic{}-{}", if hb { "-hb" } else { "" }, if split { "diagonal_update" } else { "timestep" });
        match r {
            Ok(mid) => {
                let after = obs_q(&q);
                if before.cutoff < before.n + before.n / 2 + 1 {
                    stat("usercut_generic_steps_entered_without_margin", 1);
                    if mid.n <= before.n {
                        stat("usercut_generic_steps_without_margin_adding_no_operator", 1);
                    }
                }
                emit_step(&label, &before, &mid, tr);
                if split {
                    let same = mid.cutoff == after.cutoff && mid.len == after.len && mid.n == after.n && mid.occ == after.occ;
                    emit(false, &format!("idle generic-loop+cluster {} {} {}", mid.cutoff, mid.len, mid.n), &format!("{} {} {}", after.cutoff, after.len, after.n), Some(if same { Ok(()) } else { Err("cluster moves changed occupancy, count or cutoff".into()) }));
                }
            }
            Err(p) => {
                emit(true, &format!("step {} {} {} {}", label, before.cutoff, before.len, before.n), "panic", Some(Err(format!("step panicked: {} (cutoff={} len={} n={} top={})", p, before.cutoff, before.len, before.n, top_of(&before)))));
                return;
            }
        }
    }
}

fn run_tempering(gen: &mut SplitMix64, parallel: bool) {
    use qmc::sse::parallel_tempering::*;
    let nv = gen.range(2, 5) as usize;
    let edges: Vec<((usize, usize), f64)> = (0..nv - 1).map(|a| ((a, a + 1), 1.0)).collect();
    let nrep = gen.range(2, 5) as usize;
    let mut tc = new_with_rng::<SplitMix64, SplitMix64>(SplitMix64::new(gen.next()));
    for r in 0..nrep {
        let cutoff = 1 + gen.below(6) as usize;
        let beta = 0.5 * (r as f64 + 1.0) * *gen.pick(&[1.0, 2.0, 4.0]);
        let g = G::new_with_rng(edges.clone(), 1.0, 0.0, cutoff, SplitMix64::new(gen.next()), None);
        tc.add_qmc_stepper(g, beta).unwrap();
    }
    for _round in 0..4 {
        tc.timesteps(1 + gen.below(4) as usize);
        let before: Vec<Obs> = tc.graph_ref().iter().map(|(g, _)| obs_g(g)).collect();
        if parallel {
            tc.parallel_tempering_step();
        } else {
            tc.tempering_step();
        }
        let after: Vec<Obs> = tc.graph_ref().iter().map(|(g, _)| obs_g(g)).collect();
        let m = before.iter().map(|o| o.cutoff).max().unwrap();
        let mut ok = Ok(());
        for (b, a) in before.iter().zip(after.iter()) {
            if a.cutoff < b.cutoff {
                ok = Err(format!("equalisation lowered a cutoff {} -> {}", b.cutoff, a.cutoff));
            }
            if a.cutoff != m {
                ok = Err(format!("cutoff {} is not the maximum {}", a.cutoff, m));
            }
            if a.len < a.cutoff.min(m) || a.n > a.len || a.n >= a.cutoff {
                ok = Err(format!("after swap: len={} cutoff={} n={}", a.len, a.cutoff, a.n));
            }
        }
        let ns_b: usize = before.iter().map(|o| o.n).sum();
        let ns_a: usize = after.iter().map(|o| o.n).sum();
        if ns_a != ns_b {
            ok = Err("tempering step changed the total operator count".into());
        }
        let distinct = before.iter().any(|o| o.cutoff != m);
        stat(if parallel { "tempering_parallel_rounds" } else { "tempering_serial_rounds" }, 1);
        emit(
            distinct,
            &format!("equalise {} {}", list(&before.iter().map(|o| o.cutoff).collect::<Vec<_>>()), list(&before.iter().map(|o| o.len).collect::<Vec<_>>())),
            &format!("{} {}", list(&after.iter().map(|o| o.cutoff).collect::<Vec<_>>()), list(&after.iter().map(|o| o.len).collect::<Vec<_>>())),
            Some(ok),
        );
    }
}

// ---------------------------------------------------------------------------------------------
// Tempering containers of ANY replica type (Ising samplers, generic samplers obtained by `into_qmc`,
// generic samplers built directly), small initial cutoffs, a beta ladder that makes cutoffs grow in the
// first steps, and sequences interleaving `timestep` on single replicas / `timesteps` on the container
// with (serial or rayon) tempering steps.  After EVERY public call, on EVERY replica object:
//   sampler cutoff never decreases; cutoff >= n + n/2 + 1 after a sweep; container length <= cutoff and
//   equal to the cutoff the sweep used; after a tempering step every replica's cutoff is >= the maximum of
//   the previous cutoffs (that is what lets it take any partner's string), margin and free slot survive.
// ---------------------------------------------------------------------------------------------
use qmc::sse::parallel_tempering::{GraphWeights, ParallelQmcTimeSteps, SwapManagers, TemperingContainer};

trait Rep: QmcStepper + GraphWeights + SwapManagers + Send + Sync {
    fn obs(&self) -> Obs;
}
impl Rep for G {
    fn obs(&self) -> Obs {
        obs_g(self)
    }
}
impl Rep for Q {
    fn obs(&self) -> Obs {
        obs_q(self)
    }
}

fn all_obs<T: Rep>(tc: &TemperingContainer<SplitMix64, T>) -> Vec<Obs> {
    tc.graph_ref().iter().map(|(g, _)| g.obs()).collect()
}

fn tempering_oracle(before: &[Obs], after: &[Obs]) -> Result<(), String> {
    let m = before.iter().map(|o| o.cutoff).max().unwrap();
    let margin_before = before.iter().all(|o| o.n + o.n / 2 + 1 <= o.cutoff);
    for (i, (b, a)) in before.iter().zip(after.iter()).enumerate() {
        obj_oracle(&format!("replica {}", i), b.cutoff, a)?;
        if a.cutoff < m {
            return Err(format!("replica {}: cutoff {} after the tempering step is below the maximum {} of the previous cutoffs (n = {})", i, a.cutoff, m, a.n));
        }
        if margin_before && a.n + a.n / 2 + 1 > a.cutoff {
            return Err(format!("replica {}: margin lost in the tempering step: n={} cutoff={}", i, a.n, a.cutoff));
        }
    }
    let (ns_b, ns_a): (usize, usize) = (before.iter().map(|o| o.n).sum(), after.iter().map(|o| o.n).sum());
    if ns_a != ns_b {
        return Err("tempering step changed the total operator count".into());
    }
    Ok(())
}

fn run_tempering_mixed<T: Rep>(gen: &mut SplitMix64, label: &str, reps: Vec<T>, rounds: usize, tr: &mut Tracker) {
    let mut tc = TemperingContainer::<SplitMix64, T>::new(SplitMix64::new(gen.next()));
    let ladder = *gen.pick(&[1.0, 2.0, 4.0]);
    for (r, g) in reps.into_iter().enumerate() {
        // 1/2, 1, 2, 4 ... times the ladder factor: the cold replicas outgrow cutoff 1..3 at once
        let beta = 0.5 * ladder * (1u64 << r) as f64;
        if let Err(e) = tc.add_qmc_stepper(g, beta) {
            emit(true, &format!("idle {}-add 0 0 0", label), "rejected", Some(Err(format!("add_qmc_stepper rejected an identical model: {}", e))));
            return;
        }
    }
    let nrep = tc.num_graphs();
    let step_label = format!("temper-{}", label);
    for _ in 0..rounds {
        match gen.below(5) {
            0 | 1 => {
                // one time step of the whole container
                let before = all_obs(&tc);
                if let Err(p) = catch(|| tc.timesteps(1)) {
                    emit(true, &format!("step {} {} {} 0", step_label, before[0].cutoff, before[0].len), "panic", Some(Err(format!("container timesteps(1) panicked: {} (cutoffs {:?}, n {:?})", p, before.iter().map(|o| o.cutoff).collect::<Vec<_>>(), before.iter().map(|o| o.n).collect::<Vec<_>>()))));
                    return;
                }
                let after = all_obs(&tc);
                for (b, a) in before.iter().zip(after.iter()) {
                    emit_step(&step_label, b, a, tr);
                }
            }
            2 => {
                // one replica alone
                let i = gen.below(nrep as u64) as usize;
                let before = tc.graph_ref()[i].0.obs();
                let r = catch(|| {
                    let (g, beta) = &mut tc.graph_mut()[i];
                    let b = *beta;
                    g.timestep(b);
                });
                if let Err(p) = r {
                    emit(true, &format!("step {} {} {} 0", step_label, before.cutoff, before.len), "panic", Some(Err(format!("replica timestep panicked: {} (cutoff={} len={} n={})", p, before.cutoff, before.len, before.n))));
                    return;
                }
                let after = tc.graph_ref()[i].0.obs();
                emit_step(&step_label, &before, &after, tr);
            }
            _ => {
                let before = all_obs(&tc);
                let swaps0 = tc.get_total_swaps();
                let parallel = gen.coin();
                let r = catch(|| {
                    if parallel {
                        tc.parallel_tempering_step()
                    } else {
                        tc.tempering_step()
                    }
                });
                if let Err(p) = r {
                    emit(true, &format!("equalise {} {}", list(&before.iter().map(|o| o.cutoff).collect::<Vec<_>>()), list(&before.iter().map(|o| o.len).collect::<Vec<_>>())), "panic", Some(Err(format!("tempering step panicked: {}", p))));
                    return;
                }
                let after = all_obs(&tc);
                let accepted = tc.get_total_swaps() - swaps0;
                stat(&format!("temper_{}_steps", label), 1);
                stat(&format!("temper_{}_swaps_accepted", label), accepted);
                if before.iter().any(|o| o.len < o.cutoff) {
                    stat(&format!("temper_{}_steps_right_after_growth", label), 1);
                }
                let m = before.iter().map(|o| o.cutoff).max().unwrap();
                emit(
                    before.iter().any(|o| o.cutoff != m || o.len != m),
                    &format!("equalise {} {}", list(&before.iter().map(|o| o.cutoff).collect::<Vec<_>>()), list(&before.iter().map(|o| o.len).collect::<Vec<_>>())),
                    &format!("{} {}", list(&after.iter().map(|o| o.cutoff).collect::<Vec<_>>()), list(&after.iter().map(|o| o.len).collect::<Vec<_>>())),
                    Some(tempering_oracle(&before, &after)),
                );
            }
        }
    }
}

fn run_temperings(gen: &mut SplitMix64, rounds: usize, tr: &mut Tracker) {
    let nrep = gen.range(2, 4) as usize;
    let small = |gen: &mut SplitMix64| 1 + gen.below(3) as usize; // 1, 2, 3
    // (1) Ising replicas
    let nv = gen.range(2, 4) as usize;
    let edges: Vec<((usize, usize), f64)> = (0..nv - 1).map(|a| ((a, a + 1), 1.0)).collect();
    let reps: Vec<G> = (0..nrep).map(|_| G::new_with_rng(edges.clone(), 1.0, 0.0, small(gen), SplitMix64::new(gen.next()), None)).collect();
    run_tempering_mixed(gen, "ising", reps, rounds, tr);
    // (2) generic replicas obtained by into_qmc (the cutoff, also one below nvars, is carried over)
    let reps: Vec<Q> = (0..nrep).map(|_| G::new_with_rng(edges.clone(), 1.0, 0.0, small(gen), SplitMix64::new(gen.next()), None).into_qmc()).collect();
    run_tempering_mixed(gen, "converted", reps, rounds, tr);
    // (3) generic replicas built directly: cutoff = nvars in {1, 2, 3}
    let nvq = gen.range(1, 3) as usize;
    let js: Vec<f64> = (0..nvq - 1).map(|_| 1.0).collect();
    let reps: Vec<Q> = (0..nrep).map(|_| make_generic(gen.next(), nvq, 1.0, &js)).collect();
    run_tempering_mixed(gen, "generic", reps, rounds, tr);
}

// ---------------------------------------------------------------------------------------------
// LONG-STRING stream: 8 spins at beta in the hundreds (several thousand operators), started from a tiny
// cutoff so that the rule does all the growing.  Same `step` cases (model: nextCutoff / growLen) and the
// same model-free oracle as the small systems (cutoff never decreases, new = max(old, n + n/2 + 1) exactly,
// n < cutoff, container = the cutoff the sweep used <= cutoff); the per-slot `sweep` cases are left out here
// (occupancy strings of 10^4 slots per step would dominate the run for no extra information).
// ---------------------------------------------------------------------------------------------
fn emit_step_long(site: &str, before: &Obs, after: &Obs, tr: &mut Tracker) {
    if after.cutoff > before.cutoff {
        tr.grew += 1;
    }
    tr.steps += 1;
    emit(
        true,
        &format!("step {} {} {} {}", site, before.cutoff, before.len, after.n),
        &format!("{} {}", after.cutoff, after.len),
        Some(oracle(before, after, true)),
    );
}

fn run_long(gen: &mut SplitMix64, beta: f64, generic: bool, heatbath: bool, parts: bool, steps: usize, tr: &mut Tracker) {
    let nv = 8;
    let edges: Vec<((usize, usize), f64)> = (0..nv).map(|a| ((a, (a + 1) % nv), if a % 3 == 0 { -1.0 } else { 1.0 })).collect();
    let c0 = 1 + gen.below(3) as usize;
    let mut g = G::new_with_rng(edges, 1.0, 0.0, c0, SplitMix64::new(gen.next()), None);
    let label = format!("{}{}{}", if generic { "generic" } else { "ising" }, if heatbath { "-hb" } else { "" }, if parts { "-parts" } else { "" });
    let mut nmax = 0;
    if generic {
        let mut q = g.into_qmc();
        q.set_do_heatbath(heatbath);
        for _ in 0..steps {
            let before = obs_q(&q);
            let r = catch(|| {
                if parts {
                    q.diagonal_update(beta);
                    let mid = obs_q(&q);
                    if q.should_do_cluster_update() {
                        q.cluster_update().unwrap();
                    }
                    q.flip_free_bits();
                    mid
                } else {
                    q.timestep(beta);
                    obs_q(&q)
                }
            });
            match r {
                Ok(mid) => emit_step_long(&format!("long-{}", label), &before, &mid, tr),
                Err(p) => {
                    emit(true, &format!("step {} {} {} {}", label, before.cutoff, before.len, before.n), "panic", Some(Err(format!("step panicked: {} (cutoff={} n={})", p, before.cutoff, before.n))));
                    return;
                }
            }
            nmax = nmax.max(QmcStepper::get_n(&q));
        }
    } else {
        if heatbath {
            g.set_enable_heatbath(true);
        }
        for _ in 0..steps {
            let before = obs_g(&g);
            let r = catch(|| {
                if parts {
                    g.single_diagonal_step(beta);
                    let mid = obs_g(&g);
                    g.single_cluster_step();
                    mid
                } else {
                    g.timestep(beta);
                    obs_g(&g)
                }
            });
            match r {
                Ok(mid) => emit_step_long(&format!("long-{}", label), &before, &mid, tr),
                Err(p) => {
                    emit(true, &format!("step {} {} {} {}", label, before.cutoff, before.len, before.n), "panic", Some(Err(format!("step panicked: {} (cutoff={} n={})", p, before.cutoff, before.n))));
                    return;
                }
            }
            nmax = nmax.max(QmcStepper::get_n(&g));
        }
    }
    stat("long_runs", 1);
    println!("STAT long_{}_beta{}_nmax {}", label.replace('-', "_"), beta as u64, nmax);
    let _ = &label;
    if nmax > 2730 {
        stat("long_runs_with_n_above_2730", 1);
    }
}

/// Statistical sanity line (NOT a claim of the check): energy per run from cutoff 1 vs a generous one.
fn sanity(seed: u64) {
    let edges = vec![((0, 1), 1.0), ((1, 2), 1.0), ((2, 3), 1.0), ((3, 0), 1.0)];
    let beta = 4.0;
    let mut a = G::new_with_rng(edges.clone(), 1.0, 0.0, 1, SplitMix64::new(seed), None);
    let mut b = G::new_with_rng(edges, 1.0, 0.0, 400, SplitMix64::new(seed ^ 0x55), None);
    a.timesteps(300, beta);
    b.timesteps(300, beta);
    let ea = a.timesteps(20000, beta);
    let eb = b.timesteps(20000, beta);
    println!("STAT sanity_energy_ring4_beta4 cutoff1={:.3}(final_cutoff={}) cutoff400={:.3}(final_cutoff={})", ea, a.get_cutoff(), eb, b.get_cutoff());
    let mut q = Q::new_with_state(1, SplitMix64::new(seed), vec![false], false);
    q.make_interaction(vec![1.0; 4], vec![0]).unwrap();
    q.timesteps(300, beta);
    let eq = q.timesteps(3000, beta);
    // one spin, H = -(1 + sx): ground energy -2; weight matrix all ones => E -> -2 at large beta
    println!("STAT sanity_energy_generic_one_spin_beta4 energy={:.3}(final_cutoff={})", eq, q.get_cutoff());
}

fn main() {
    quiet_panics();
    let a = args();
    let mut gen = SplitMix64::new(a.seed.wrapping_mul(0x9E37_79B9).wrapping_add(12));
    let (reps, steps) = if a.thorough { (400, 80) } else { (40, 30) };
    let mut tr = Tracker { grew: 0, steps: 0 };
    let mixes = [Mix::Plain, Mix::Rvb, Mix::HeatBath, Mix::RvbHeatBath, Mix::Split];
    for rep in 0..reps {
        for (mi, mix) in mixes.iter().enumerate() {
            run_ising(&mut gen, steps, (rep + mi) % 5, *mix, &mut tr);
        }
        run_generic(&mut gen, steps, true, &mut tr);
        run_generic(&mut gen, steps, false, &mut tr);
        run_history_ising(&mut gen, steps, &mut tr);
        run_history_generic(&mut gen, steps, &mut tr);
        run_temperings(&mut gen, steps, &mut tr);
        run_beta_switch(&mut gen, steps, &mut tr);
        run_user_cutoff_ising(&mut gen, steps, &mut tr);
        run_user_cutoff_ising(&mut gen, steps, &mut tr);
        run_user_cutoff_generic(&mut gen, steps, &mut tr);
        if rep % 3 == 0 {
            run_tempering(&mut gen, false);
            run_tempering(&mut gen, true);
        }
    }
    // long-string stream
    let t0 = std::time::Instant::now();
    if a.thorough {
        for (i, beta) in [300.0, 500.0, 700.0].iter().enumerate() {
            for (generic, hb) in [(false, false), (false, true), (true, false), (true, true)] {
                run_long(&mut gen, *beta, generic, hb, (i + generic as usize + hb as usize) % 2 == 0, 60, &mut tr);
            }
        }
    } else {
        run_long(&mut gen, 180.0, false, false, false, 40, &mut tr);
        run_long(&mut gen, 180.0, false, true, true, 40, &mut tr);
        run_long(&mut gen, 180.0, true, true, false, 40, &mut tr);
        run_long(&mut gen, 180.0, true, false, true, 40, &mut tr);
    }
    println!("STAT long_stream_millis {}", t0.elapsed().as_millis());
    stat("steps_total", tr.steps);
    stat("steps_where_cutoff_grew", tr.grew);
    sanity(a.seed);
}
