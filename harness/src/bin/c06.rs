//! C06 / C07 — world-line consistency and legality of stored operators after EVERY public
//! mutating call, in random interleavings (Ising and generic samplers, swaps, conversion,
//! serde restore). One CASE line per single call:
//!
//!   <rel> <call> <ham> <sweep-cutoff> <state-before> <slots-before> <state-after> <slots-after>
//!     | rel:1 cons:1 legal:1 fold:<states handed to the imaginary-time fold> | oracle
//!
//! `<rel>` names the relation of QmcModel/Worldline.lean that the Lean driver decides between
//! before and after (`diag`, `icluster`, `gcluster`, `loop`, `free`, `rvb`, `move`, `init`).
//! The oracle column is computed here, from the real code only: Rust propagation
//! (`vh::propagate_check`), legality of every stored operator against the sampler's own matrix
//! elements, bond/position preservation for spin-only calls, fold output == Rust propagation.
//!
//! Modes: `swapwit` (fixed witness of finding F25), `walk` (random interleavings), `swapcut` (raw `swap_manager_and_state` between
//! samplers with different cutoffs, then a diagonal sweep), `f12` (zero-word probing of every RNG
//! draw of an RVB update: can a zero-weight operator be stored?).

use qmc::sse::fast_ops::FastOps;
use qmc::sse::*;
use rand::RngCore;
use vh::*;

type G<R> = QmcIsingGraph<R, FastOps>;
type Q = Qmc<SplitMix64, FastOps>;

// ------------------------------------------------------------------------------------------
// snapshots
// ------------------------------------------------------------------------------------------
#[derive(Clone, Debug, PartialEq, Eq)]
struct SOp {
    p: usize,
    bond: usize,
    vars: Vec<usize>,
    ins: Vec<bool>,
    outs: Vec<bool>,
    diag: bool,
    constant: bool,
}

#[derive(Clone, Debug, PartialEq, Eq)]
struct Snap {
    state: Vec<bool>,
    len: usize,
    ops: Vec<SOp>,
    text: String,
}

fn snap<M: OpContainer>(m: &M, state: &[bool]) -> Snap {
    let len = m.get_cutoff();
    let ops = (0..len)
        .filter_map(|p| {
            m.get_pth(p).map(|op| SOp {
                p,
                bond: op.get_bond(),
                vars: op.get_vars().to_vec(),
                ins: op.get_inputs().to_vec(),
                outs: op.get_outputs().to_vec(),
                diag: op.is_diagonal(),
                constant: op.is_constant(),
            })
        })
        .collect();
    Snap {
        state: state.to_vec(),
        len,
        ops,
        text: format!("{} {}", bits(state), show_slots(m)),
    }
}

/// The Hamiltonian as the oracle sees it: closures over the real code.
struct HamView<'a> {
    token: String,
    nbonds: usize,
    edge: Box<dyn Fn(usize) -> (Vec<usize>, bool) + 'a>,
    w: Box<dyn Fn(usize, &[bool], &[bool]) -> f64 + 'a>,
}

fn ising_view<'a, R: rand::Rng>(g: &'a G<R>) -> HamView<'a> {
    let nvars = g.get_nvars();
    let ne = g.get_edges().len();
    let h = g.get_longitudinal_field();
    let nbonds = ne + nvars + if h.abs() > f64::EPSILON { nvars } else { 0 };
    let edges: Vec<String> = g
        .get_edges()
        .iter()
        .map(|(e, j)| format!("{},{},{}", e[0], e[1], rat(*j)))
        .collect();
    let token = format!(
        "I!{}!{}!{}!{}",
        nvars,
        if edges.is_empty() { "-".to_string() } else { edges.join(";") },
        rat(g.get_transverse_field()),
        rat(h)
    );
    HamView {
        token,
        nbonds,
        edge: Box::new(move |b| {
            if b < ne {
                (g.get_edges()[b].0.clone(), false)
            } else if b < ne + nvars {
                (vec![b - ne], true)
            } else {
                (vec![b - ne - nvars], false)
            }
        }),
        w: Box::new(move |b, i, o| {
            let info = g.make_haminfo();
            let vars: Vec<usize> = if b < ne { g.get_edges()[b].0.clone() } else { vec![0] };
            G::<R>::hamiltonian(&info, &vars, b, i, o)
        }),
    }
}

fn patterns(n: usize) -> Vec<Vec<bool>> {
    (0..(1usize << n))
        .map(|i| (0..n).map(|b| (i >> (n - 1 - b)) & 1 == 1).collect())
        .collect()
}

fn generic_view<'a, R: rand::Rng>(q: &'a Qmc<R, FastOps>) -> HamView<'a> {
    let js = serde_json::to_value(q.get_bonds()).unwrap();
    let vars: Vec<Vec<usize>> = js
        .as_array()
        .unwrap()
        .iter()
        .map(|b| b["vars"].as_array().unwrap().iter().map(|v| v.as_u64().unwrap() as usize).collect())
        .collect();
    let bonds: Vec<TableBond> = q
        .get_bonds()
        .iter()
        .zip(vars.iter())
        .map(|(b, vs)| {
            let k = vs.len();
            let pats = patterns(k);
            let mut mat = vec![];
            for o in pats.iter() {
                for i in pats.iter() {
                    mat.push(b.at(i, o).unwrap());
                }
            }
            // the constant flag of a bond is recomputed from the MATRIX (all 4^k entries equal),
            // never taken from the library's own `is_constant()` / `is_constant_diag()`
            let constant = mat.iter().all(|x| *x == mat[0]);
            TableBond { vars: vs.clone(), constant, mat }
        })
        .collect();
    let token = show_table_ham(&bonds);
    let vars2 = vars.clone();
    let consts: Vec<bool> = bonds.iter().map(|b| b.constant).collect();
    for (b, c) in q.get_bonds().iter().zip(consts.iter()) {
        if b.is_constant_diag() && !*c {
            stat("generic.bond_const_diag_not_const", 1);
        }
    }
    HamView {
        token,
        nbonds: vars.len(),
        edge: Box::new(move |b| (vars2[b].clone(), consts[b])),
        w: Box::new(move |b, i, o| q.get_bonds()[b].at(i, o).unwrap_or(f64::NAN)),
    }
}

// ------------------------------------------------------------------------------------------
// the oracle (real code only)
// ------------------------------------------------------------------------------------------
fn rust_fold_states(s: &Snap) -> Vec<Vec<bool>> {
    // state entering every slot, by plain propagation
    let mut st = s.state.clone();
    let mut out = vec![];
    let mut k = 0;
    for p in 0..s.len {
        out.push(st.clone());
        if k < s.ops.len() && s.ops[k].p == p {
            let op = &s.ops[k];
            for (i, v) in op.vars.iter().enumerate() {
                st[*v] = op.outs[i];
            }
            k += 1;
        }
    }
    out
}

fn oracle_config<M: OpContainer>(m: &M, a: &Snap, hv: &HamView, fold: &Result<Vec<Vec<bool>>, String>) -> Result<(), String> {
    match propagate_check(m, &a.state) {
        Err(p) => return Err(format!("C06 op at p={} does not meet its recorded inputs", p)),
        Ok(s) => {
            if s != a.state {
                return Err(format!("C06 propagation ends in {} not in the reported state {}", bits(&s), bits(&a.state)));
            }
        }
    }
    for op in a.ops.iter() {
        if op.bond >= hv.nbonds {
            return Err(format!("C07 p={} bond {} out of range {}", op.p, op.bond, hv.nbonds));
        }
        let (vars, c) = (hv.edge)(op.bond);
        if vars != op.vars {
            return Err(format!("C07 p={} bond {} vars {:?} but the bond acts on {:?}", op.p, op.bond, op.vars, vars));
        }
        if c != op.constant {
            return Err(format!("C07 p={} bond {} constant flag {} but bond says {}", op.p, op.bond, op.constant, c));
        }
        if op.ins.len() != vars.len() || op.outs.len() != vars.len() {
            return Err(format!("C07 p={} wrong number of values", op.p));
        }
        if op.diag != (op.ins == op.outs) {
            return Err(format!("C07 p={} tag diagonal={} but ins {} outs {}", op.p, op.diag, bits(&op.ins), bits(&op.outs)));
        }
        let w = (hv.w)(op.bond, &op.ins, &op.outs);
        if !(w > 0.0) {
            return Err(format!("C07 p={} bond {} {}->{} has matrix element {}", op.p, op.bond, bits(&op.ins), bits(&op.outs), w));
        }
    }
    match fold {
        Err(e) => return Err(format!("C06 imaginary_time_fold panicked: {}", e)),
        Ok(f) => {
            if *f != rust_fold_states(a) {
                return Err("C06 imaginary_time_fold states differ from the propagated states".to_string());
            }
        }
    }
    Ok(())
}

fn skeleton(s: &Snap) -> Vec<(usize, usize, Vec<usize>, bool)> {
    s.ops.iter().map(|o| (o.p, o.bond, o.vars.clone(), o.constant)).collect()
}

fn oracle_step(rel: &str, b: &Snap, a: &Snap) -> Result<(), String> {
    match rel {
        "icluster" | "gcluster" | "loop" | "free" => {
            if skeleton(b) != skeleton(a) {
                return Err("C07 spin-only update changed which bonds sit at which positions".to_string());
            }
            if a.len != b.len {
                return Err("C07 spin-only update changed the cutoff".to_string());
            }
            if rel == "free" && a.ops != b.ops {
                return Err("C07 free-spin refresh changed an operator".to_string());
            }
        }
        "diag" => {
            let off = |s: &Snap| s.ops.iter().filter(|o| !o.diag).cloned().collect::<Vec<_>>();
            if off(b) != off(a) {
                return Err("C06 diagonal sweep changed an off-diagonal operator".to_string());
            }
            if a.len < b.len {
                return Err("C06 diagonal sweep shrank the string".to_string());
            }
        }
        "rvb" => {
            let pos = |s: &Snap| s.ops.iter().map(|o| o.p).collect::<Vec<_>>();
            if pos(b) != pos(a) || a.len != b.len {
                return Err("C07 RVB update changed the occupied positions".to_string());
            }
        }
        "move" => {
            if a.state != b.state || a.ops != b.ops || a.len < b.len {
                return Err("C06 configuration not carried over unchanged".to_string());
            }
        }
        _ => {}
    }
    Ok(())
}

fn fold_token(f: &Result<Vec<Vec<bool>>, String>) -> String {
    match f {
        Err(_) => "PANIC".to_string(),
        Ok(v) => {
            if v.is_empty() {
                "-".to_string()
            } else {
                v.iter().map(|s| bits(s)).collect::<Vec<_>>().join(",")
            }
        }
    }
}

struct Ctx {
    cases: usize,
}

#[allow(clippy::too_many_arguments)]
fn emit_case<M: OpContainer>(
    ctx: &mut Ctx,
    rel: &str,
    call: &str,
    hv: &HamView,
    sweep: usize,
    b: &Snap,
    a: &Snap,
    m: &M,
    fold: Result<Vec<Vec<bool>>, String>,
    extra: Result<(), String>,
) {
    let oracle = extra.and_then(|_| oracle_step(rel, b, a)).and_then(|_| oracle_config(m, a, hv, &fold));
    let input = format!("{} {} {} {} {} {}", rel, call, hv.token, sweep, b.text, a.text);
    let output = format!("rel:1 cons:1 legal:1 fold:{}", fold_token(&fold));
    let nontrivial = !a.ops.is_empty() || !b.ops.is_empty();
    emit(nontrivial, &input, &output, Some(oracle));
    stat(&format!("call.{}", call), 1);
    stat(&format!("rel.{}", rel), 1);
    if b.ops != a.ops {
        stat("ops_changed", 1);
    }
    if b.state != a.state {
        stat("state_changed", 1);
    }
    if rel == "rvb" && skeleton(b) != skeleton(a) {
        stat("rvb.rebonded", 1);
    }
    if (rel == "icluster" || rel == "gcluster" || rel == "loop" || rel == "rvb") && b.ops != a.ops {
        stat(&format!("flipped_ops.{}", rel), 1);
    }
    if a.ops.iter().any(|o| !o.diag) {
        stat("has_offdiagonal", 1);
    }
    stat(&format!("n_ops.{}", std::cmp::min(a.ops.len() / 8, 6) * 8), 1);
    ctx.cases += 1;
}

fn emit_panic(ctx: &mut Ctx, rel: &str, call: &str, token: &str, sweep: usize, b: &Snap, msg: &str) {
    let input = format!("{} {} {} {} {} {}", rel, call, token, sweep, b.text, b.text);
    emit(true, &input, "rel:1 cons:1 legal:1 fold:PANIC", Some(Err(format!("C06 {} panicked: {}", call, msg))));
    ctx.cases += 1;
}

fn fold_g<R: rand::Rng>(g: &G<R>) -> Result<Vec<Vec<bool>>, String> {
    catch(|| {
        g.imaginary_time_fold(
            |mut acc: Vec<Vec<bool>>, s: &[bool]| {
                acc.push(s.to_vec());
                acc
            },
            vec![],
        )
    })
}
fn fold_q<R: rand::Rng>(q: &Qmc<R, FastOps>) -> Result<Vec<Vec<bool>>, String> {
    catch(|| {
        q.imaginary_time_fold(
            |mut acc: Vec<Vec<bool>>, s: &[bool]| {
                acc.push(s.to_vec());
                acc
            },
            vec![],
        )
    })
}

fn snap_g<R: rand::Rng>(g: &G<R>) -> Snap {
    snap(g.get_manager_ref(), g.state_ref())
}
fn snap_q<R: rand::Rng>(q: &Qmc<R, FastOps>) -> Snap {
    snap(q.get_manager_ref(), q.state_ref())
}

/// Run one single (non-composite) call on an Ising sampler and emit its case.
fn ising_single<R: rand::Rng>(ctx: &mut Ctx, g: &mut G<R>, rel: &str, call: &str, f: impl FnOnce(&mut G<R>)) -> bool {
    let b = snap_g(g);
    let sweep = g.get_cutoff();
    let r = catch(|| f(g));
    match r {
        Err(msg) => {
            let tok = ising_view(g).token;
            emit_panic(ctx, rel, call, &tok, sweep, &b, &msg);
            false
        }
        Ok(()) => {
            let a = snap_g(g);
            let fold = fold_g(g);
            let hv = ising_view(g);
            emit_case(ctx, rel, call, &hv, sweep, &b, &a, g.get_manager_ref(), fold, Ok(()));
            true
        }
    }
}

/// Does the sampler hold a term that is NOT symmetric under the global spin flip? Computed here
/// from ALL 4^n entries of every bond's table (read through `Interaction::at`), never from the
/// library's own `sym_under_ising()` / `breaks_ising_symmetry`.
fn asymmetric_bonds(q: &Q) -> Vec<usize> {
    let js = serde_json::to_value(q.get_bonds()).unwrap();
    let mut out = vec![];
    for (bi, (b, jb)) in q.get_bonds().iter().zip(js.as_array().unwrap().iter()).enumerate() {
        let k = jb["vars"].as_array().unwrap().len();
        let pats = patterns(k);
        let neg = |p: &Vec<bool>| p.iter().map(|x| !*x).collect::<Vec<bool>>();
        let mut asym = false;
        for o in pats.iter() {
            for i in pats.iter() {
                if b.at(i, o).unwrap() != b.at(&neg(i), &neg(o)).unwrap() {
                    asym = true;
                }
            }
        }
        if asym {
            out.push(bi);
        }
    }
    out
}

/// `cluster_update()` with the gate oracle: the plain (unweighted) cluster flip must not run at
/// all while an Ising-asymmetric term is registered.
fn generic_cluster(ctx: &mut Ctx, q: &mut Q, call: &str) -> bool {
    let asym = asymmetric_bonds(q);
    if !asym.is_empty() {
        stat("gate.asymmetric_sampler_cluster_calls", 1);
    }
    let gate = q.should_do_cluster_update();
    generic_single_x(ctx, q, "gcluster", call, move |q| {
        let ran = q.cluster_update().is_ok();
        if !asym.is_empty() && (ran || gate) {
            Err(format!(
                "C07 cluster update {} although bond(s) {:?} are not symmetric under the global spin flip (all 4^n entries compared)",
                if ran { "ran" } else { "is enabled (should_do_cluster_update)" },
                asym
            ))
        } else {
            Ok(())
        }
    })
}

fn generic_single(ctx: &mut Ctx, q: &mut Q, rel: &str, call: &str, f: impl FnOnce(&mut Q)) -> bool {
    generic_single_x(ctx, q, rel, call, |q| {
        f(q);
        Ok(())
    })
}

/// Like `generic_single`; the closure's verdict is an extra (real-code-only) oracle clause.
fn generic_single_x<R: rand::Rng>(ctx: &mut Ctx, q: &mut Qmc<R, FastOps>, rel: &str, call: &str, f: impl FnOnce(&mut Qmc<R, FastOps>) -> Result<(), String>) -> bool {
    let b = snap_q(q);
    let sweep = q.get_cutoff();
    let r = catch(|| f(q));
    match r {
        Err(msg) => {
            let tok = generic_view(q).token;
            emit_panic(ctx, rel, call, &tok, sweep, &b, &msg);
            false
        }
        Ok(extra) => {
            let a = snap_q(q);
            let fold = fold_q(q);
            let hv = generic_view(q);
            emit_case(ctx, rel, call, &hv, sweep, &b, &a, q.get_manager_ref(), fold, extra);
            true
        }
    }
}

fn json_eq_except(a: &serde_json::Value, b: &serde_json::Value, skip: &[&str]) -> Result<(), String> {
    let (ao, bo) = (a.as_object().unwrap(), b.as_object().unwrap());
    for (k, v) in ao.iter() {
        if skip.contains(&k.as_str()) {
            continue;
        }
        if bo.get(k) != Some(v) {
            return Err(format!("field `{}` differs", k));
        }
    }
    Ok(())
}

/// `timestep` on a clone must equal the decomposition into single calls (same RNG state, same
/// configuration, same cutoff); then the single calls are emitted one by one.
fn ising_timestep(ctx: &mut Ctx, g: &mut G<SplitMix64>, beta: f64, rvb: bool) -> bool {
    let mut whole = g.clone();
    let rw = catch(|| {
        whole.timestep(beta);
    });
    let mut ok = ising_single(ctx, g, "diag", "timestep/single_diagonal_step", |g| g.single_diagonal_step(beta));
    if ok && rvb {
        ok = ising_single(ctx, g, "rvb", "timestep/single_rvb_sweep(None)", |g| {
            g.single_rvb_sweep(None);
        });
    }
    if ok {
        ok = ising_single(ctx, g, "icluster", "timestep/single_cluster_step", |g| {
            g.single_cluster_step();
        });
    }
    if !ok {
        // a piece panicked (already reported as a failing case); the sampler is unusable now
        return false;
    }
    let same = match (&rw, ok) {
        (Ok(()), true) => json_eq_except(
            &serde_json::to_value(&whole).unwrap(),
            &serde_json::to_value(&*g).unwrap(),
            &["total_rvb_successes", "rvb_clusters_counted"],
        ),
        (Err(_), false) => Ok(()),
        (Err(e), true) => Err(format!("timestep panicked ({}) but its decomposition did not", e)),
        (Ok(()), false) => Err("decomposition panicked but timestep did not".to_string()),
    };
    // the composite call as a whole is a `move` of the decomposed result
    let b = snap_g(g);
    let a = snap_g(&whole);
    let fold = fold_g(&whole);
    let hv = ising_view(&whole);
    emit_case(
        ctx,
        "move",
        "timestep==decomposition",
        &hv,
        whole.get_cutoff(),
        &b,
        &a,
        whole.get_manager_ref(),
        fold,
        same.map_err(|e| format!("C06 harness: Ising timestep differs from single_diagonal_step;[single_rvb_sweep];single_cluster_step: {}", e)),
    );
    ok
}

fn generic_timestep(ctx: &mut Ctx, q: &mut Q, beta: f64) -> bool {
    let mut whole = q.clone();
    let rw = catch(|| {
        whole.timestep(beta);
    });
    let mut ok = generic_single(ctx, q, "diag", "timestep/diagonal_update", |q| q.diagonal_update(beta));
    if ok && q.should_do_loop_update() {
        ok = generic_single(ctx, q, "loop", "timestep/loop_update", |q| q.loop_update());
    }
    if ok && q.should_do_cluster_update() {
        ok = generic_cluster(ctx, q, "timestep/cluster_update");
    }
    if ok {
        ok = generic_single(ctx, q, "free", "timestep/flip_free_bits", |q| q.flip_free_bits());
    }
    if !ok {
        return false;
    }
    let same = match (&rw, ok) {
        (Ok(()), true) => json_eq_except(&serde_json::to_value(&whole).unwrap(), &serde_json::to_value(&*q).unwrap(), &[]),
        (Err(_), false) => Ok(()),
        (Err(e), true) => Err(format!("timestep panicked ({}) but its decomposition did not", e)),
        (Ok(()), false) => Err("decomposition panicked but timestep did not".to_string()),
    };
    let b = snap_q(q);
    let a = snap_q(&whole);
    let fold = fold_q(&whole);
    let hv = generic_view(&whole);
    emit_case(
        ctx,
        "move",
        "timestep==decomposition",
        &hv,
        whole.get_cutoff(),
        &b,
        &a,
        whole.get_manager_ref(),
        fold,
        same.map_err(|e| format!("C06 harness: generic timestep differs from diagonal_update;[loop_update];[cluster_update];flip_free_bits: {}", e)),
    );
    ok
}

// ------------------------------------------------------------------------------------------
// generators
// ------------------------------------------------------------------------------------------
fn gen_beta(r: &mut SplitMix64) -> f64 {
    *r.pick(&[0.125, 0.25, 0.5, 1.0, 1.5, 2.0, 3.0, 4.0, 4.0, 6.0, 8.0])
}

struct IsingSpec {
    nvars: usize,
    edges: Vec<((usize, usize), f64)>,
    gamma: f64,
    h: f64,
}

fn gen_ising_spec(r: &mut SplitMix64, force_h: Option<bool>) -> IsingSpec {
    let nvars = r.range(2, 5) as usize;
    let mut edges = vec![];
    // a path (so every variable is used and nvars is what we want) + random extra edges
    for v in 0..nvars - 1 {
        edges.push((v, v + 1));
    }
    let extra = r.range(0, 3);
    for _ in 0..extra {
        let a = r.below(nvars as u64) as usize;
        let b = r.below(nvars as u64) as usize;
        if a != b {
            edges.push((a, b));
        }
    }
    let edges = edges
        .into_iter()
        .map(|(a, b)| {
            let mag = *r.pick(&[0.25, 0.5, 1.0, 1.0, 1.5]);
            let j = if r.coin() { mag } else { -mag };
            // both orientations of an edge occur
            if r.coin() {
                ((a, b), j)
            } else {
                ((b, a), j)
            }
        })
        .collect();
    let mut edges: Vec<((usize, usize), f64)> = edges;
    // a variable without any real coupling: no edge at all (index gap) or only J = 0 edges
    if nvars >= 3 && r.chance(1, 4) {
        let v = r.below(nvars as u64 - 1) as usize; // never the largest index (it defines nvars)
        if r.coin() {
            edges.retain(|((a, b), _)| *a != v && *b != v);
            let top = nvars - 1;
            if !edges.iter().any(|((a, b), _)| *a == top || *b == top) {
                let other = (0..nvars).find(|x| *x != v && *x != top).unwrap();
                let mag = *r.pick(&[0.5, 1.0]);
                edges.push(((other, top), if r.coin() { mag } else { -mag }));
            }
            stat("ising.isolated_variable", 1);
        } else {
            for e in edges.iter_mut() {
                if (e.0).0 == v || (e.0).1 == v {
                    e.1 = 0.0;
                }
            }
            stat("ising.zero_j_variable", 1);
        }
    }
    let gamma = *r.pick(&[0.25, 0.5, 1.0, 1.0, 2.0]);
    let with_h = force_h.unwrap_or_else(|| r.chance(1, 2));
    let h = if with_h { *r.pick(&[0.25, 0.5, 1.0, -0.25, -0.5, -1.0]) } else { 0.0 };
    IsingSpec { nvars, edges, gamma, h }
}

fn gen_state(r: &mut SplitMix64, n: usize) -> Vec<bool> {
    match r.below(4) {
        0 => vec![false; n],
        1 => vec![true; n],
        _ => (0..n).map(|_| r.coin()).collect(),
    }
}

/// A replica of the same lattice: same edges and signs, other magnitudes (so swaps are allowed).
fn scale_spec(r: &mut SplitMix64, s: &IsingSpec) -> IsingSpec {
    let f = *r.pick(&[0.5, 1.0, 2.0]);
    IsingSpec {
        nvars: s.nvars,
        edges: s.edges.iter().map(|(e, j)| (*e, j * f)).collect(),
        gamma: s.gamma * *r.pick(&[0.5, 1.0, 2.0]),
        h: s.h * *r.pick(&[0.5, 1.0, 2.0]),
    }
}

fn build_ising(r: &mut SplitMix64, s: &IsingSpec, cutoff: usize) -> G<SplitMix64> {
    let st = if r.chance(1, 5) { None } else { Some(gen_state(r, s.nvars)) };
    let mut g = G::<SplitMix64>::new_with_rng(s.edges.clone(), s.gamma, s.h, cutoff, SplitMix64::new(r.next()), st);
    if r.chance(1, 2) {
        g.set_run_rvb(true);
    }
    if r.chance(1, 3) {
        g.set_enable_heatbath(true);
    }
    g
}

fn emit_init_g(ctx: &mut Ctx, g: &G<SplitMix64>) {
    let a = snap_g(g);
    let fold = fold_g(g);
    let hv = ising_view(g);
    emit_case(ctx, "init", "new_with_rng", &hv, g.get_cutoff(), &a, &a, g.get_manager_ref(), fold, Ok(()));
}
fn emit_init_q(ctx: &mut Ctx, q: &Q) {
    let a = snap_q(q);
    let fold = fold_q(q);
    let hv = generic_view(q);
    emit_case(ctx, "init", "new_with_state", &hv, q.get_cutoff(), &a, &a, q.get_manager_ref(), fold, Ok(()));
}

fn rvb_flag(g: &G<SplitMix64>) -> bool {
    serde_json::to_value(g).unwrap()["run_rvb_steps"].as_bool().unwrap()
}

/// A walk on the generic sampler obtained by `into_qmc` (or built directly).
fn generic_walk(ctx: &mut Ctx, r: &mut SplitMix64, q: &mut Q, other: Option<&mut Q>, ncalls: usize) {
    let mut other = other;
    for _ in 0..ncalls {
        let beta = gen_beta(r);
        let ok = match r.below(12) {
            0 | 1 => generic_timestep(ctx, q, beta),
            2 | 3 | 4 => generic_single(ctx, q, "diag", "diagonal_update", |q| q.diagonal_update(beta)),
            5 => {
                // loop_update is public regardless of the do_loop_updates flag
                generic_single(ctx, q, "loop", "loop_update", |q| q.loop_update())
            }
            6 => {
                if q.should_do_cluster_update() || r.chance(1, 2) {
                    // cluster_update returns Err (and changes nothing) if Ising symmetry is broken
                    generic_cluster(ctx, q, "cluster_update")
                } else {
                    true
                }
            }
            7 => generic_single(ctx, q, "free", "flip_free_bits", |q| q.flip_free_bits()),
            8 => {
                let hb = !q.should_do_heatbath();
                q.set_do_heatbath(hb);
                true
            }
            9 => {
                // serde restore
                let b = snap_q(q);
                let text = serde_json::to_string(&*q).unwrap();
                let restored: Q = serde_json::from_str(&text).unwrap();
                *q = restored;
                let a = snap_q(q);
                let fold = fold_q(q);
                let hv = generic_view(q);
                emit_case(ctx, "move", "serde_restore", &hv, q.get_cutoff(), &b, &a, q.get_manager_ref(), fold, Ok(()));
                true
            }
            10 => {
                if let Some(o) = other.as_deref_mut() {
                    // direct replica swap (cutoffs may differ): inherent call or the SwapManagers trait
                    let via_trait = r.coin();
                    let name = if via_trait { "swap_graphs" } else { "swap_manager_and_state" };
                    let (bq, bo) = (snap_q(q), snap_q(o));
                    let mut swapped = true;
                    if via_trait {
                        if SwapManagers::can_swap_graphs(&*q, &*o).is_ok() {
                            SwapManagers::swap_graphs(q, o);
                        } else {
                            swapped = false;
                        }
                    } else {
                        q.swap_manager_and_state(o);
                    }
                    if swapped {
                        if bq.len != bo.len {
                            stat(&format!("{}.unequal_lengths", name), 1);
                        }
                        let (aq, ao) = (snap_q(q), snap_q(o));
                        let fold = fold_q(q);
                        let hv = generic_view(q);
                        emit_case(ctx, "move", name, &hv, q.get_cutoff(), &bo, &aq, q.get_manager_ref(), fold, cutoff_covers(q.get_cutoff(), &aq));
                        let fold = fold_q(o);
                        let hv = generic_view(o);
                        emit_case(ctx, "move", name, &hv, o.get_cutoff(), &bq, &ao, o.get_manager_ref(), fold, cutoff_covers(o.get_cutoff(), &ao));
                    }
                }
                true
            }
            _ => {
                if let Some(o) = other.as_deref_mut() {
                    generic_timestep(ctx, o, beta)
                } else {
                    true
                }
            }
        };
        if !ok {
            return;
        }
    }
}

/// After any swap a sampler must sweep over the whole string it received: its own cutoff has to
/// reach at least the last occupied slot + 1 (and the container length never exceeds what the
/// next sweep covers only if the cutoffs were raised to the common maximum).
fn cutoff_covers(cutoff: usize, a: &Snap) -> Result<(), String> {
    match a.ops.last() {
        Some(op) if cutoff < op.p + 1 => Err(format!(
            "C06 after the swap the sampler's cutoff {} does not reach the received string's last occupied slot {}",
            cutoff, op.p
        )),
        _ => Ok(()),
    }
}

/// One serial `tempering_step` of the container: every replica afterwards holds some replica's
/// former configuration, moved unchanged; each replica is judged with its OWN Hamiltonian.
fn tempering_step_cases(ctx: &mut Ctx, tc: &mut TemperingContainer<SplitMix64, G<SplitMix64>>) -> bool {
    let nrep = tc.num_graphs();
    let before: Vec<Snap> = tc.graph_ref().iter().map(|(g, _)| snap_g(g)).collect();
    let res = catch(|| tc.tempering_step());
    match res {
        Err(msg) => {
            let tok = ising_view(&tc.graph_ref()[0].0).token;
            emit_panic(ctx, "move", "tempering_step", &tok, 0, &before[0], &msg);
            false
        }
        Ok(()) => {
            for k in 0..nrep {
                let g = &tc.graph_ref()[k].0;
                let a = snap_g(g);
                let src = before.iter().find(|b| b.state == a.state && b.ops == a.ops);
                let (b, extra) = match src {
                    Some(b) => (b.clone(), Ok(())),
                    None => (before[k].clone(), Err("C06 tempering_step: replica holds a configuration no replica had before".to_string())),
                };
                if b != before[k] {
                    stat("tempering.swapped", 1);
                    if g.get_longitudinal_field() == 0.0 && tc.graph_ref().iter().any(|(o, _)| o.get_longitudinal_field() != 0.0) {
                        stat("tempering.swapped_into_zero_field_replica", 1);
                    }
                }
                let fold = fold_g(g);
                let hv = ising_view(g);
                emit_case(ctx, "move", "tempering_step", &hv, g.get_cutoff(), &b, &a, g.get_manager_ref(), fold, extra);
            }
            true
        }
    }
}

/// Tempering ladder that mixes a replica with longitudinal field exactly 0 with replicas with a
/// field of one sign (accepted by `can_swap_managers`: signum(0.0) == signum(+h)), beta and Gamma
/// ladders mixed in; >= 30 rounds of [time steps on every replica; tempering_step]. A field op has
/// weight 0 (indeed no bond index) in the zero-field replica, so the real code must refuse every
/// swap that would move one there; every replica is checked with its own Hamiltonian after every call.
fn field_ladder_scenario(ctx: &mut Ctx, r: &mut SplitMix64, rounds: usize) {
    let base = gen_ising_spec(r, Some(false));
    let (ha, hb) = (*r.pick(&[0.25, 0.5, 1.0]), *r.pick(&[0.25, 0.5, 1.0, 2.0]));
    let fields: Vec<f64> = match r.below(9) {
        0 => vec![0.0, ha, hb],
        1 => vec![ha, 0.0, hb],
        2 => vec![ha, hb, 0.0],
        3 => vec![0.0, ha],
        4 => vec![ha, 0.0],
        5 => vec![-0.0, -ha],
        6 => vec![-ha, -0.0],
        7 => vec![-0.0, -ha, -hb],
        _ => vec![0.0, 0.0, ha, hb],
    };
    let nrep = fields.len();
    stat(&format!("ladder.fields{}", nrep), 1);
    let mut tc: TemperingContainer<SplitMix64, G<SplitMix64>> = TemperingContainer::new(SplitMix64::new(r.next()));
    for h in fields.iter() {
        let s = IsingSpec {
            nvars: base.nvars,
            edges: base.edges.clone(),
            gamma: base.gamma * *r.pick(&[0.5, 1.0, 1.0, 2.0]),
            h: *h,
        };
        let cutoff = r.range(1, 8) as usize;
        let mut g = build_ising(r, &s, cutoff);
        // RVB with a field is exercised in the ordinary walks; keep the ladder on the cluster path
        g.set_run_rvb(false);
        emit_init_g(ctx, &g);
        let beta = *r.pick(&[0.25, 0.5, 1.0, 1.0, 2.0]);
        if let Err(e) = tc.add_qmc_stepper(g, beta) {
            // the library refused the ladder (not a defect): nothing to walk
            stat("ladder.refused", 1);
            let _ = e;
            return;
        }
    }
    for _ in 0..rounds {
        for i in 0..nrep {
            let nsteps = r.range(1, 2);
            for _ in 0..nsteps {
                let beta = tc.graph_ref()[i].1;
                let ok = if r.chance(1, 3) {
                    ising_timestep(ctx, &mut tc.graph_mut()[i].0, beta, false)
                } else {
                    // the same work as a timestep, through the single-call API
                    ising_single(ctx, &mut tc.graph_mut()[i].0, "diag", "single_diagonal_step", |g| g.single_diagonal_step(beta))
                        && ising_single(ctx, &mut tc.graph_mut()[i].0, "icluster", "single_cluster_step", |g| {
                            g.single_cluster_step();
                        })
                };
                if !ok {
                    return;
                }
            }
        }
        if !tempering_step_cases(ctx, &mut tc) {
            return;
        }
    }
}

/// One sampler run hot for a while, the other fresh (small cutoff); a direct trait-level exchange
/// (`can_swap_graphs` + `swap_graphs`, sometimes the inherent call), then diagonal steps / time
/// steps of each — Ising and generic implementations of `SwapManagers`.
fn hot_cold_swap_scenario(ctx: &mut Ctx, r: &mut SplitMix64) {
    // Ising
    {
        let spec = gen_ising_spec(r, None);
        let c_hot = r.range(2, 8) as usize;
        let mut hot = build_ising(r, &spec, c_hot);
        let c_cold = r.range(1, 4) as usize;
        let mut cold = build_ising(r, &spec, c_cold);
        emit_init_g(ctx, &hot);
        emit_init_g(ctx, &cold);
        for _ in 0..r.range(3, 8) {
            let rvb = rvb_flag(&hot);
            if !ising_timestep(ctx, &mut hot, *r.pick(&[2.0, 4.0, 8.0]), rvb) {
                return;
            }
        }
        for _ in 0..r.range(0, 1) {
            let rvb = rvb_flag(&cold);
            if !ising_timestep(ctx, &mut cold, 0.25, rvb) {
                return;
            }
        }
        let via_trait = r.chance(3, 4);
        let name = if via_trait { "swap_graphs" } else { "swap_manager_and_state" };
        let (bh, bc) = (snap_g(&hot), snap_g(&cold));
        if bh.len != bc.len {
            stat(&format!("{}.unequal_lengths", name), 1);
        }
        if via_trait {
            if SwapManagers::can_swap_graphs(&cold, &hot).is_err() {
                return;
            }
            if r.coin() {
                SwapManagers::swap_graphs(&mut cold, &mut hot);
            } else {
                SwapManagers::swap_graphs(&mut hot, &mut cold);
            }
        } else {
            cold.swap_manager_and_state(&mut hot);
        }
        for (g, b) in [(&cold, &bh), (&hot, &bc)] {
            let a = snap_g(g);
            let fold = fold_g(g);
            let hv = ising_view(g);
            emit_case(ctx, "move", name, &hv, g.get_cutoff(), b, &a, g.get_manager_ref(), fold, cutoff_covers(g.get_cutoff(), &a));
        }
        for _ in 0..r.range(2, 4) {
            let beta = gen_beta(r);
            if !ising_single(ctx, &mut cold, "diag", "single_diagonal_step", |g| g.single_diagonal_step(beta)) {
                return;
            }
            let rvb = rvb_flag(&hot);
            if !ising_timestep(ctx, &mut hot, beta, rvb) {
                return;
            }
            if !ising_single(ctx, &mut cold, "icluster", "single_cluster_step", |g| {
                g.single_cluster_step();
            }) {
                return;
            }
        }
    }
    // generic
    {
        let kind = *r.pick(&[0u64, 1, 4, 6]);
        let nvars = if kind == 6 { 3 } else { r.range(2, 4) as usize };
        let loops = kind != 1;
        let seed_r = r.next();
        let (mut r1, mut r2) = (SplitMix64::new(seed_r), SplitMix64::new(seed_r));
        let (s1, s2) = (gen_state(r, nvars), gen_state(r, nvars));
        let mut hot = build_generic(&mut r1, kind, nvars, s1, loops);
        let mut cold = build_generic(&mut r2, kind, nvars, s2, loops);
        if r.coin() {
            cold.set_cutoff(r.range(1, 3) as usize);
        }
        emit_init_q(ctx, &hot);
        emit_init_q(ctx, &cold);
        for _ in 0..r.range(3, 8) {
            if !generic_timestep(ctx, &mut hot, *r.pick(&[2.0, 4.0, 8.0])) {
                return;
            }
        }
        let via_trait = r.chance(3, 4);
        let name = if via_trait { "swap_graphs" } else { "swap_manager_and_state" };
        let (bh, bc) = (snap_q(&hot), snap_q(&cold));
        if bh.len != bc.len {
            stat(&format!("{}.unequal_lengths", name), 1);
        }
        if via_trait {
            if SwapManagers::can_swap_graphs(&cold, &hot).is_err() {
                return;
            }
            SwapManagers::swap_graphs(&mut cold, &mut hot);
        } else {
            cold.swap_manager_and_state(&mut hot);
        }
        for (q, b) in [(&cold, &bh), (&hot, &bc)] {
            let a = snap_q(q);
            let fold = fold_q(q);
            let hv = generic_view(q);
            emit_case(ctx, "move", name, &hv, q.get_cutoff(), b, &a, q.get_manager_ref(), fold, cutoff_covers(q.get_cutoff(), &a));
        }
        for _ in 0..r.range(2, 4) {
            let beta = gen_beta(r);
            if !generic_single(ctx, &mut cold, "diag", "diagonal_update", |q| q.diagonal_update(beta)) {
                return;
            }
            if !generic_timestep(ctx, &mut hot, beta) {
                return;
            }
        }
    }
}

/// Ising samplers WITHOUT transverse field (Gamma exactly 0), with and without longitudinal
/// field: time steps until the string holds operators (field ops when h != 0), then `into_qmc()`
/// of a clone and a walk on the converted generic sampler — Legal right after the conversion and
/// after every generic step (the op manager is carried over with the Ising bond numbering, which
/// always reserves the nvars transverse slots).
fn gamma_zero_convert_scenario(ctx: &mut Ctx, r: &mut SplitMix64) {
    let with_h = r.chance(3, 4);
    let mut spec = gen_ising_spec(r, Some(with_h));
    spec.gamma = 0.0;
    // no J = 0 edges here: with Gamma = 0 a variable without any term at all is uninteresting
    for e in spec.edges.iter_mut() {
        if e.1 == 0.0 {
            e.1 = 0.5;
        }
    }
    stat(if spec.h != 0.0 { "gamma0.h_nonzero" } else { "gamma0.h_zero" }, 1);
    let cutoff = r.range(1, 8) as usize;
    let st = gen_state(r, spec.nvars);
    let mut g = G::<SplitMix64>::new_with_rng(spec.edges.clone(), 0.0, spec.h, cutoff, SplitMix64::new(r.next()), Some(st));
    if r.chance(1, 3) {
        g.set_enable_heatbath(true);
    }
    emit_init_g(ctx, &g);
    for round in 0..r.range(3, 6) {
        let beta = *r.pick(&[0.5, 1.0, 2.0, 4.0]);
        if !ising_timestep(ctx, &mut g, beta, false) {
            return;
        }
        if round >= 1 {
            let gc = g.clone();
            let b = snap_g(&gc);
            let ne = spec.edges.len();
            if b.ops.iter().any(|o| o.bond >= ne + spec.nvars) {
                stat("gamma0.converted_with_field_ops", 1);
            }
            match catch(move || gc.into_qmc()) {
                Err(msg) => {
                    let tok = ising_view(&g).token;
                    emit_panic(ctx, "move", "into_qmc", &tok, 0, &b, &msg);
                }
                Ok(mut q) => {
                    let a = snap_q(&q);
                    let fold = fold_q(&q);
                    {
                        let hv = generic_view(&q);
                        emit_case(ctx, "move", "into_qmc", &hv, q.get_cutoff(), &b, &a, q.get_manager_ref(), fold, Ok(()));
                    }
                    if r.coin() {
                        q.set_do_loop_updates(true);
                    }
                    generic_walk(ctx, r, &mut q, None, 5);
                }
            }
        }
    }
}

/// Tempering pairs in the floating-point OVERFLOW regime of the exchange test: a hot replica
/// (beta ~ 2) holding >= 24 operators incl. transverse and field operators next to a freshly
/// added very cold replica (beta = k * 2^50, no operators) whose Hamiltonian gives weight 0 to
/// some of them (h = 0 and/or Gamma = 0). The temperature factor (beta_a/beta_b)^(n_b - n_a)
/// overflows to +inf, the Hamiltonian factor is exactly 0, the product is NaN: the exchange must
/// NOT happen (the receiver would store zero-weight operators). Serial `tempering_step`s, every
/// replica judged with its own Hamiltonian after every step.
fn overflow_ladder_scenario(ctx: &mut Ctx, r: &mut SplitMix64) {
    let nvars = r.range(3, 4) as usize;
    let edges: Vec<((usize, usize), f64)> = (0..nvars - 1)
        .map(|i| {
            let mag = r.range(2, 6) as f64 / 4.0;
            ((i, i + 1), if r.coin() { mag } else { -mag })
        })
        .collect();
    let gamma = r.range(2, 5) as f64 / 4.0;
    let hmag = r.range(2, 6) as f64 / 4.0;
    let neg = r.coin();
    let h_hot = if neg { -hmag } else { hmag };
    let zero_h = if neg { -0.0 } else { 0.0 };
    let beta_hot = r.range(6, 10) as f64 / 4.0;
    let mut hot = G::<SplitMix64>::new_with_rng(edges.clone(), gamma, h_hot, 4, SplitMix64::new(r.next()), Some(gen_state(r, nvars)));
    if r.chance(1, 3) {
        hot.set_enable_heatbath(true);
    }
    let ne = edges.len();
    let mut ready = false;
    for _ in 0..200 {
        if catch(|| {
            hot.timestep(beta_hot);
        })
        .is_err()
        {
            return;
        }
        let s = snap_g(&hot);
        let has_field = s.ops.iter().any(|o| o.bond >= ne + nvars);
        let has_transverse = s.ops.iter().any(|o| o.bond >= ne && o.bond < ne + nvars);
        if s.ops.len() >= 24 && has_field && has_transverse {
            ready = true;
            break;
        }
    }
    if !ready {
        stat("overflow.hot_not_ready", 1);
        return;
    }
    // the cold replica: same lattice, h = 0 and/or Gamma = 0, never stepped
    let (g_cold, h_cold, variant) = match r.below(3) {
        0 => (gamma, zero_h, "h0"),
        1 => (0.0, h_hot, "gamma0"),
        _ => (0.0, zero_h, "h0_gamma0"),
    };
    let beta_cold = (1 + r.below(3)) as f64 * (2.0f64).powi(50);
    let cold = G::<SplitMix64>::new_with_rng(edges.clone(), g_cold, h_cold, 4, SplitMix64::new(r.next()), Some(gen_state(r, nvars)));
    let mut hot2 = G::<SplitMix64>::new_with_rng(edges.clone(), gamma, h_hot, 4, SplitMix64::new(r.next()), Some(gen_state(r, nvars)));
    let _ = catch(|| {
        for _ in 0..20 {
            hot2.timestep(beta_hot);
        }
    });
    stat(&format!("overflow.ladder_{}", variant), 1);
    let mut tc: TemperingContainer<SplitMix64, G<SplitMix64>> = TemperingContainer::new(SplitMix64::new(r.next()));
    let reps: Vec<(G<SplitMix64>, f64)> = match r.below(3) {
        0 => vec![(hot, beta_hot), (cold, beta_cold)],
        1 => vec![(cold, beta_cold), (hot, beta_hot)],
        _ => vec![(hot, beta_hot), (cold, beta_cold), (hot2, beta_hot)],
    };
    for (g, beta) in reps {
        emit_init_g(ctx, &g);
        if tc.add_qmc_stepper(g, beta).is_err() {
            stat("overflow.refused", 1);
            return;
        }
    }
    for _ in 0..6 {
        if !tempering_step_cases(ctx, &mut tc) {
            return;
        }
        // keep the hot replicas moving (the cold one stays fresh)
        for i in 0..tc.num_graphs() {
            let beta = tc.graph_ref()[i].1;
            if beta < 1.0e6 && tc.graph_ref()[i].0.get_n() > 0 {
                if !ising_single(ctx, &mut tc.graph_mut()[i].0, "diag", "single_diagonal_step", |g| g.single_diagonal_step(beta)) {
                    return;
                }
            }
        }
    }
}

fn ising_scenario(ctx: &mut Ctx, r: &mut SplitMix64, ncalls: usize, force_h: Option<bool>) {
    let spec = gen_ising_spec(r, force_h);
    let nrep = r.range(2, 3) as usize;
    let mut tc: TemperingContainer<SplitMix64, G<SplitMix64>> = TemperingContainer::new(SplitMix64::new(r.next()));
    for i in 0..nrep {
        let s = if i == 0 { scale_spec(r, &spec) } else { scale_spec(r, &spec) };
        let cutoff = r.range(1, 8) as usize;
        let g = build_ising(r, &s, cutoff);
        emit_init_g(ctx, &g);
        tc.add_qmc_stepper(g, gen_beta(r)).unwrap();
    }
    stat(if spec.h != 0.0 { "ising.h_nonzero" } else { "ising.h_zero" }, 1);
    for _ in 0..ncalls {
        let i = r.below(nrep as u64) as usize;
        let beta = gen_beta(r);
        let choice = r.below(20);
        let ok = match choice {
            0 | 1 | 2 => {
                let g = &mut tc.graph_mut()[i].0;
                let rvb = rvb_flag(g);
                ising_timestep(ctx, g, beta, rvb)
            }
            3 | 4 | 5 => ising_single(ctx, &mut tc.graph_mut()[i].0, "diag", "single_diagonal_step", |g| g.single_diagonal_step(beta)),
            6 | 7 => ising_single(ctx, &mut tc.graph_mut()[i].0, "icluster", "single_cluster_step", |g| {
                g.single_cluster_step();
            }),
            8 | 9 | 10 => {
                let k = *r.pick(&[Some(1usize), Some(1), Some(2), Some(3), None]);
                let name = match k {
                    Some(1) => "single_rvb_sweep(Some(1))",
                    Some(_) => "single_rvb_sweep(Some(k))",
                    None => "single_rvb_sweep(None)",
                };
                ising_single(ctx, &mut tc.graph_mut()[i].0, "rvb", name, |g| {
                    g.single_rvb_sweep(k);
                })
            }
            11 | 12 => tempering_step_cases(ctx, &mut tc),
            13 => {
                // direct public swap between two replicas (cutoffs may differ): the inherent
                // `swap_manager_and_state`, or the `SwapManagers` trait a user-written exchange
                // schedule would use (`can_swap_graphs` + `swap_graphs`, `get/set_op_cutoff`)
                let j = (i + 1) % nrep;
                let via_trait = r.coin();
                if via_trait && r.chance(1, 4) {
                    // cutoff negotiation through the trait (growth only)
                    let g = &mut tc.graph_mut()[i].0;
                    let b = snap_g(g);
                    let c = SwapManagers::get_op_cutoff(g) + r.range(0, 3) as usize;
                    SwapManagers::set_op_cutoff(g, c);
                    let a = snap_g(g);
                    let fold = fold_g(g);
                    let hv = ising_view(g);
                    emit_case(ctx, "move", "set_op_cutoff", &hv, g.get_cutoff(), &b, &a, g.get_manager_ref(), fold, Ok(()));
                }
                let (bi, bj) = (snap_g(&tc.graph_ref()[i].0), snap_g(&tc.graph_ref()[j].0));
                let name = if via_trait { "swap_graphs" } else { "swap_manager_and_state" };
                let mut swapped = true;
                {
                    let gs = tc.graph_mut();
                    let (lo, hi) = if i < j { (i, j) } else { (j, i) };
                    let (x, y) = gs.split_at_mut(hi);
                    if via_trait {
                        if SwapManagers::can_swap_graphs(&x[lo].0, &y[0].0).is_ok() {
                            SwapManagers::swap_graphs(&mut x[lo].0, &mut y[0].0);
                        } else {
                            swapped = false;
                        }
                    } else {
                        x[lo].0.swap_manager_and_state(&mut y[0].0);
                    }
                }
                if swapped {
                    if bi.len != bj.len {
                        stat(&format!("{}.unequal_lengths", name), 1);
                    }
                    for (k, b) in [(i, &bj), (j, &bi)] {
                        let g = &tc.graph_ref()[k].0;
                        let a = snap_g(g);
                        let fold = fold_g(g);
                        let hv = ising_view(g);
                        let extra = cutoff_covers(g.get_cutoff(), &a);
                        emit_case(ctx, "move", name, &hv, g.get_cutoff(), b, &a, g.get_manager_ref(), fold, extra);
                    }
                }
                true
            }
            14 | 15 => {
                // serde restore (with the rng, or through SerializeQmcGraph with a fresh rng)
                let b = snap_g(&tc.graph_ref()[i].0);
                let restored: G<SplitMix64> = if r.coin() {
                    let text = serde_json::to_string(&tc.graph_ref()[i].0).unwrap();
                    serde_json::from_str(&text).unwrap()
                } else {
                    let sg: serialization::SerializeQmcGraph<FastOps> = tc.graph_ref()[i].0.clone().into();
                    let text = serde_json::to_string(&sg).unwrap();
                    let sg: serialization::SerializeQmcGraph<FastOps> = serde_json::from_str(&text).unwrap();
                    sg.into_qmc(SplitMix64::new(r.next()))
                };
                tc.graph_mut()[i].0 = restored;
                let g = &tc.graph_ref()[i].0;
                let a = snap_g(g);
                let fold = fold_g(g);
                let hv = ising_view(g);
                emit_case(ctx, "move", "serde_restore", &hv, g.get_cutoff(), &b, &a, g.get_manager_ref(), fold, Ok(()));
                true
            }
            16 => {
                // conversion of a clone to the generic sampler, then a walk there
                let g = tc.graph_ref()[i].0.clone();
                let b = snap_g(&g);
                match catch(move || g.into_qmc()) {
                    Err(msg) => {
                        let tok = ising_view(&tc.graph_ref()[i].0).token;
                        emit_panic(ctx, "move", "into_qmc", &tok, 0, &b, &msg);
                        true
                    }
                    Ok(mut q) => {
                        let a = snap_q(&q);
                        let fold = fold_q(&q);
                        {
                            let hv = generic_view(&q);
                            emit_case(ctx, "move", "into_qmc", &hv, q.get_cutoff(), &b, &a, q.get_manager_ref(), fold, Ok(()));
                        }
                        if r.coin() {
                            q.set_do_loop_updates(true);
                        }
                        generic_walk(ctx, r, &mut q, None, 6);
                        true
                    }
                }
            }
            17 => {
                let g = &mut tc.graph_mut()[i].0;
                let on = !rvb_flag(g);
                g.set_run_rvb(on);
                true
            }
            18 => {
                let on = r.coin();
                tc.graph_mut()[i].0.set_enable_heatbath(on);
                true
            }
            _ => {
                // explicit cutoff growth through the public setter
                let g = &mut tc.graph_mut()[i].0;
                let c = g.get_cutoff() + r.range(0, 3) as usize;
                let b = snap_g(g);
                g.set_cutoff(c);
                let a = snap_g(g);
                let fold = fold_g(g);
                let hv = ising_view(g);
                emit_case(ctx, "move", "set_cutoff", &hv, g.get_cutoff(), &b, &a, g.get_manager_ref(), fold, Ok(()));
                true
            }
        };
        if !ok {
            return;
        }
    }
}

fn build_generic(r: &mut SplitMix64, kind: u64, nvars: usize, state: Vec<bool>, loops: bool) -> Q {
    let rng = SplitMix64::new(r.next());
    build_generic_with(r, kind, nvars, state, loops, rng)
}

fn build_generic_with<R: rand::Rng>(r: &mut SplitMix64, kind: u64, nvars: usize, state: Vec<bool>, loops: bool, rng: R) -> Qmc<R, FastOps> {
    let mut q = Qmc::<R, FastOps>::new_with_state(nvars, rng, state, loops);
    match kind {
        0 => {
            // exchange type (XXZ-like) on a ring + optional sz+sx+1 site terms; loop updates
            let d = *r.pick(&[0.5, 1.0, 2.0]);
            let x = *r.pick(&[0.5, 1.0]);
            for v in 0..nvars {
                let w = (v + 1) % nvars;
                if w != v && !(nvars == 2 && v == 1) {
                    // index = (outs ++ ins): diagonal entries 0,5,10,15; exchange 01<->10 at 6 and 9
                    let mut m = vec![0.0; 16];
                    m[5] = d;
                    m[10] = d;
                    m[0] = *r.pick(&[0.0, 0.25]);
                    m[15] = m[0];
                    m[6] = x;
                    m[9] = x;
                    q.make_interaction(m, vec![v, w]).unwrap();
                }
            }
            if r.coin() {
                for v in 0..nvars {
                    q.make_interaction(vec![2.0, 1.0, 1.0, 0.0], vec![v]).unwrap();
                }
            }
        }
        1 => {
            // Ising symmetric two-site diagonal terms + constant single-site terms; cluster updates
            for v in 0..nvars - 1 {
                let j = *r.pick(&[0.5, 1.0, 1.5]);
                let m = if r.coin() { vec![j, 0.0, 0.0, j] } else { vec![0.0, j, j, 0.0] };
                if r.coin() {
                    q.make_diagonal_interaction(m, vec![v, v + 1]).unwrap();
                } else {
                    q.make_diagonal_interaction(m, vec![v + 1, v]).unwrap();
                }
            }
            let c = *r.pick(&[0.5, 1.0, 2.0]);
            for v in 0..nvars {
                q.make_interaction(vec![c, c, c, c], vec![v]).unwrap();
            }
            if r.coin() {
                // a symmetric full two-site term with pair flips
                let mut m = vec![0.0; 16];
                m[0] = 1.0;
                m[15] = 1.0;
                m[3] = 0.5; // ins 11 -> outs 00
                m[12] = 0.5; // ins 00 -> outs 11
                q.make_interaction(m, vec![0, nvars - 1]).unwrap();
            }
        }
        3 => {
            // Ising-symmetric two-site terms, constant single-site terms (cluster edges) and
            // symmetry-BREAKING single-variable field terms (one diagonal entry of weight 0 after
            // the offset), registered in a random order: the field terms come first, in the
            // middle or last. The library must never run plain cluster flips on such a model.
            let mut terms: Vec<(u8, usize)> = vec![];
            for v in 0..nvars - 1 {
                terms.push((0, v));
            }
            for v in 0..nvars {
                terms.push((1, v));
            }
            let nfield = r.range(1, nvars as i64) as usize;
            let field_first = r.below(3);
            let mut fields: Vec<(u8, usize)> = (0..nfield).map(|v| (2u8, v)).collect();
            // shuffle the symmetric / constant part
            for i in (1..terms.len()).rev() {
                let j = r.below(i as u64 + 1) as usize;
                terms.swap(i, j);
            }
            let order: Vec<(u8, usize)> = match field_first {
                0 => {
                    fields.extend(terms);
                    fields
                }
                1 => {
                    let mid = terms.len() / 2;
                    let mut o = terms[..mid].to_vec();
                    o.extend(fields);
                    o.extend(terms[mid..].iter().cloned());
                    o
                }
                _ => {
                    terms.extend(fields);
                    terms
                }
            };
            let j = *r.pick(&[0.5, 1.0, 1.5]);
            let c = *r.pick(&[0.5, 1.0, 2.0]);
            let h = *r.pick(&[0.5, 1.0, -0.5, -1.0]);
            let ferro = r.coin();
            for (k, v) in order {
                match k {
                    0 => {
                        let m = if ferro { vec![j, 0.0, 0.0, j] } else { vec![0.0, j, j, 0.0] };
                        q.make_diagonal_interaction(m, vec![v, v + 1]).unwrap();
                    }
                    1 => q.make_interaction(vec![c, c, c, c], vec![v]).unwrap(),
                    _ => q.make_interaction_and_offset(vec![-h, 0.0, 0.0, h], vec![v]).unwrap(),
                }
            }
        }
        4 => {
            // interactions whose DIAGONAL is constant while the MATRIX is not (their ops must not
            // be flagged constant): one-site energy shifts `[c,c]`, one-site full matrices
            // `[a,b,b,a]` with a != b, two-site full matrices with constant diagonal and a
            // non-constant off-diagonal part; next to Ising-symmetric two-site terms and genuinely
            // constant single-site terms, so that cluster updates run. Random registration order.
            let mut terms: Vec<(u8, usize)> = vec![];
            for v in 0..nvars - 1 {
                terms.push((0, v));
            }
            for v in 0..nvars {
                terms.push((1, v));
                match r.below(3) {
                    0 => terms.push((2, v)),
                    1 => terms.push((3, v)),
                    _ => {
                        terms.push((2, v));
                        terms.push((3, v));
                    }
                }
            }
            for v in 0..nvars - 1 {
                if r.coin() {
                    terms.push((4, v));
                }
            }
            for i in (1..terms.len()).rev() {
                let j = r.below(i as u64 + 1) as usize;
                terms.swap(i, j);
            }
            let j = *r.pick(&[0.5, 1.0, 1.5]);
            let c = *r.pick(&[0.5, 1.0, 2.0]);
            let shift = *r.pick(&[0.25, 0.5, 1.0]);
            let (a, b) = *r.pick(&[(1.0, 0.5), (0.5, 1.0), (0.0, 1.0), (2.0, 0.25)]);
            let ferro = r.coin();
            for (k, v) in terms {
                match k {
                    0 => {
                        let m = if ferro { vec![j, 0.0, 0.0, j] } else { vec![0.0, j, j, 0.0] };
                        q.make_diagonal_interaction(m, vec![v, v + 1]).unwrap();
                    }
                    1 => q.make_interaction(vec![c, c, c, c], vec![v]).unwrap(),
                    2 => q.make_diagonal_interaction(vec![shift, shift], vec![v]).unwrap(),
                    3 => q.make_interaction(vec![a, b, b, a], vec![v]).unwrap(),
                    _ => {
                        // constant diagonal d, exchange 01<->10 and pair flips 00<->11
                        let mut m = vec![0.0; 16];
                        for d in [0usize, 5, 10, 15] {
                            m[d] = shift;
                        }
                        m[6] = 0.5;
                        m[9] = 0.5;
                        m[3] = 0.25;
                        m[12] = 0.25;
                        q.make_interaction(m, vec![v, v + 1]).unwrap();
                    }
                }
            }
        }
        5 => {
            // CONSTANT interactions over two and three variables (all 4^k entries equal): they are
            // NOT cluster edges (only single-site constant ops are), so a cluster must run through
            // all of their legs. Next to Ising-symmetric bonds and single-site constant terms on a
            // SUBSET of the variables (so world lines of different variables are cut differently).
            let c2 = *r.pick(&[0.5, 1.0, 2.0]);
            let j = *r.pick(&[0.5, 1.0, 1.5]);
            let c = *r.pick(&[0.5, 1.0, 2.0]);
            let ferro = r.coin();
            let mut terms: Vec<(u8, usize)> = vec![];
            for v in 0..nvars - 1 {
                terms.push((0, v));
                if v == 0 || r.coin() {
                    terms.push((2, v));
                }
            }
            // single-site constant terms: variable 0 always, the others sometimes
            terms.push((1, 0));
            for v in 1..nvars {
                if r.chance(1, 3) {
                    terms.push((1, v));
                }
            }
            if nvars >= 3 {
                terms.push((3, r.below(nvars as u64 - 2) as usize));
            }
            for i in (1..terms.len()).rev() {
                let k = r.below(i as u64 + 1) as usize;
                terms.swap(i, k);
            }
            for (k, v) in terms {
                match k {
                    0 => {
                        let m = if ferro { vec![j, 0.0, 0.0, j] } else { vec![0.0, j, j, 0.0] };
                        q.make_diagonal_interaction(m, vec![v, v + 1]).unwrap();
                    }
                    1 => q.make_interaction(vec![c, c, c, c], vec![v]).unwrap(),
                    2 => {
                        if r.coin() {
                            q.make_interaction(vec![c2; 16], vec![v, v + 1]).unwrap()
                        } else {
                            q.make_interaction(vec![c2; 16], vec![v + 1, v]).unwrap()
                        }
                    }
                    _ => q.make_interaction(vec![c2; 64], vec![v, v + 2, v + 1]).unwrap(),
                }
            }
        }
        6 => {
            // three-variable FULL (8x8) matrices with positive off-diagonal entries between basis
            // states differing in one, two (and sometimes three) of the three bits, two-variable
            // full matrices with single-bit flips, next to one-/two-variable terms; loop updates
            // are ON for this kind; with and without cluster edges, symmetric and not.
            let d = *r.pick(&[0.5, 1.0, 2.0]);
            let x1 = *r.pick(&[0.25, 0.5, 1.0]);
            let x2 = *r.pick(&[0.25, 0.5, 0.75]);
            let x3 = *r.pick(&[0.0, 0.125]);
            let symmetric = r.chance(2, 3);
            let edges = r.coin();
            let pop = |x: usize| x.count_ones() as usize;
            let mut m3 = vec![0.0; 64];
            for o in 0..8usize {
                for i in 0..8usize {
                    m3[(o << 3) | i] = match pop(o ^ i) {
                        0 => d,
                        1 => x1,
                        2 => x2,
                        _ => x3,
                    };
                }
            }
            if !symmetric {
                // break the Ising symmetry (and the constant diagonal): no cluster updates then
                m3[0] = d + 0.5;
                m3[(1 << 3) | 2] = 0.0;
            }
            let v0 = r.below(nvars as u64 - 2) as usize;
            let order3 = match r.below(3) {
                0 => vec![v0, v0 + 1, v0 + 2],
                1 => vec![v0 + 2, v0, v0 + 1],
                _ => vec![v0 + 1, v0 + 2, v0],
            };
            q.make_interaction(m3, order3).unwrap();
            for v in 0..nvars - 1 {
                if r.coin() {
                    // two-variable full matrix: diagonal d, single-bit flips x1, double flips x2
                    let mut m2 = vec![0.0; 16];
                    for o in 0..4usize {
                        for i in 0..4usize {
                            m2[(o << 2) | i] = match pop(o ^ i) {
                                0 => d,
                                1 => x1,
                                _ => x2,
                            };
                        }
                    }
                    q.make_interaction(m2, vec![v, v + 1]).unwrap();
                } else {
                    q.make_diagonal_interaction(vec![1.0, 0.0, 0.0, 1.0], vec![v, v + 1]).unwrap();
                }
            }
            for v in 0..nvars {
                match r.below(3) {
                    0 => q.make_interaction(vec![1.0, 0.5, 0.5, 1.0], vec![v]).unwrap(),
                    1 if edges => q.make_interaction(vec![1.0, 1.0, 1.0, 1.0], vec![v]).unwrap(),
                    _ => {}
                }
            }
            if edges {
                q.make_interaction(vec![0.5, 0.5, 0.5, 0.5], vec![0]).unwrap();
            }
        }
        7 => {
            // FULL two- (and three-) variable matrices that are Ising symmetric EXCEPT for one pair
            // of entries (idx, ~idx); the pair is placed in each quarter of the index range in turn
            // (in particular the blocks with MIXED output bits), on the diagonal or off it; one
            // member of the pair may be 0 (so a wrongly run plain cluster flip stores a zero-weight
            // op). Next to symmetric bonds and constant single-site terms (cluster edges exist).
            let d = *r.pick(&[0.5, 1.0, 2.0]);
            let x1 = *r.pick(&[0.25, 0.5]);
            let x2 = *r.pick(&[0.25, 0.75]);
            let pop = |x: usize| x.count_ones() as usize;
            let three = nvars >= 3 && r.coin();
            let k = if three { 3usize } else { 2usize };
            let size = 1usize << (2 * k);
            let mut m = vec![0.0; size];
            for o in 0..(1usize << k) {
                for i in 0..(1usize << k) {
                    m[(o << k) | i] = match pop(o ^ i) {
                        0 => d,
                        1 => x1,
                        _ => x2,
                    };
                }
            }
            let quarter = *r.pick(&[0usize, 1, 2, 3, 1, 2]);
            let qlen = size / 4;
            let idx = if r.chance(2, 3) {
                // a diagonal entry inside this quarter if there is one: o == i, index = (o << k) | o
                let diag: Vec<usize> = (0..(1usize << k)).map(|o| (o << k) | o).filter(|x| x / qlen == quarter).collect();
                if diag.is_empty() { quarter * qlen + r.below(qlen as u64) as usize } else { *r.pick(&diag) }
            } else {
                quarter * qlen + r.below(qlen as u64) as usize
            };
            let partner = !idx & (size - 1);
            match r.below(3) {
                0 => {
                    m[idx] += 1.0;
                    m[partner] = 0.0;
                }
                1 => m[idx] = 0.0,
                _ => m[idx] += 0.5,
            }
            stat(&format!("asym.k{}.quarter{}", k, quarter), 1);
            let v0 = r.below((nvars - k + 1) as u64) as usize;
            let vars_full: Vec<usize> = if k == 2 {
                if r.coin() { vec![v0, v0 + 1] } else { vec![v0 + 1, v0] }
            } else {
                vec![v0, v0 + 2, v0 + 1]
            };
            let c = *r.pick(&[0.5, 1.0, 2.0]);
            let mut terms: Vec<(u8, usize)> = vec![(9, 0)];
            for v in 0..nvars {
                if v == 0 || r.chance(2, 3) {
                    terms.push((1, v));
                }
            }
            for v in 0..nvars - 1 {
                if r.coin() {
                    terms.push((0, v));
                }
            }
            for i in (1..terms.len()).rev() {
                let j = r.below(i as u64 + 1) as usize;
                terms.swap(i, j);
            }
            for (t, v) in terms {
                match t {
                    9 => q.make_interaction(m.clone(), vars_full.clone()).unwrap(),
                    1 => q.make_interaction(vec![c, c, c, c], vec![v]).unwrap(),
                    _ => q.make_diagonal_interaction(vec![1.0, 0.0, 0.0, 1.0], vec![v, v + 1]).unwrap(),
                }
            }
        }
        _ => {
            // mixed: three-variable diagonal term, offset constructors, non-symmetric site terms
            if nvars >= 3 {
                let m: Vec<f64> = (0..8).map(|_| *r.pick(&[0.0, 0.5, 1.0, 2.0])).collect();
                q.make_diagonal_interaction_and_offset(m, vec![0, 2, 1]).unwrap();
            }
            for v in 0..nvars {
                let a = *r.pick(&[0.5, 1.0]);
                q.make_interaction_and_offset(vec![-a, 0.5, 0.5, a], vec![v]).unwrap();
            }
            for v in 0..nvars - 1 {
                q.make_diagonal_interaction(vec![1.0, 0.0, 0.25, 1.0], vec![v, v + 1]).unwrap();
            }
        }
    }
    q
}

fn generic_scenario(ctx: &mut Ctx, r: &mut SplitMix64, ncalls: usize) {
    let kind = *r.pick(&[0u64, 1, 2, 3, 4, 5, 6, 7, 7]);
    let nvars = if kind == 6 { r.range(3, 4) as usize } else { r.range(2, 4) as usize };
    let loops = kind == 0 || kind == 6 || (kind != 3 && kind != 7 && r.coin()) || (kind == 7 && r.chance(1, 3));
    let seed_r = r.next();
    let mut r1 = SplitMix64::new(seed_r);
    let mut r2 = SplitMix64::new(seed_r);
    let (s1, s2) = (gen_state(r, nvars), gen_state(r, nvars));
    let mut q1 = build_generic(&mut r1, kind, nvars, s1, loops);
    let mut q2 = build_generic(&mut r2, kind, nvars, s2, loops);
    assert!(q1.can_swap_managers(&q2).is_ok());
    if r.coin() {
        q1.set_cutoff(r.range(1, 6) as usize);
    }
    if r.coin() {
        q2.set_cutoff(r.range(1, 6) as usize);
    }
    if r.chance(1, 3) {
        q1.set_do_heatbath(true);
    }
    stat(&format!("generic.kind{}", kind), 1);
    emit_init_q(ctx, &q1);
    emit_init_q(ctx, &q2);
    generic_walk(ctx, r, &mut q1, Some(&mut q2), ncalls);
}

// ------------------------------------------------------------------------------------------
// mode swapcut: raw swap between samplers with different cutoffs, then one diagonal sweep
// ------------------------------------------------------------------------------------------
fn swapcut(ctx: &mut Ctx, r: &mut SplitMix64, n: usize) {
    let mut done = 0;
    let mut tries = 0;
    while done < n && tries < 400 * n {
        tries += 1;
        let spec = gen_ising_spec(r, None);
        let sc = r.range(1, 8) as usize;
        let mut small = build_ising(r, &spec, sc);
        let bc = r.range(4, 8) as usize;
        let mut big = build_ising(r, &spec, bc);
        // grow the big one, then (sometimes) thin it out again at small beta
        for _ in 0..r.range(3, 8) {
            big.timestep(2.0);
        }
        let thin = r.coin();
        if thin {
            for _ in 0..r.range(1, 4) {
                big.timestep(0.125);
            }
        }
        if big.get_manager_ref().get_cutoff() <= small.get_cutoff() {
            continue;
        }
        // variant A: more operators than the small cutoff (cutoff - n underflows)
        // variant B: fewer operators, but an off-diagonal operator beyond the small cutoff
        let nb = big.get_n();
        let beyond = {
            // does the state after the first `small cutoff` slots differ from the start state?
            let sb = snap_g(&big);
            let states = rust_fold_states(&sb);
            nb + 2 <= small.get_cutoff() && states[small.get_cutoff()] != sb.state
        };
        let variant = if nb > small.get_cutoff() {
            "A"
        } else if beyond {
            "B"
        } else {
            continue;
        };
        if variant == "A" && done % 2 == 1 {
            continue;
        }
        done += 1;
        stat(&format!("swapcut.variant{}", variant), 1);
        let bb = snap_g(&big);
        small.swap_manager_and_state(&mut big);
        {
            let a = snap_g(&small);
            let fold = fold_g(&small);
            let hv = ising_view(&small);
            emit_case(ctx, "move", "swap_manager_and_state(unequal-cutoffs)", &hv, small.get_cutoff(), &bb, &a, small.get_manager_ref(), fold, Ok(()));
        }
        let beta = if variant == "B" { 0.125 } else { gen_beta(r) };
        ising_single(ctx, &mut small, "diag", "single_diagonal_step(after-unequal-swap)", |g| g.single_diagonal_step(beta));
    }
}

// ------------------------------------------------------------------------------------------
// mode f12: zero-word probing of RVB updates
// ------------------------------------------------------------------------------------------
fn f12(ctx: &mut Ctx, r: &mut SplitMix64, n: usize) {
    let mut found = 0usize;
    for _ in 0..n {
        let spec = gen_ising_spec(r, Some(false));
        // warm up with a SplitMix sampler, then transfer the configuration into RecRng samplers
        let mut g0 = G::<SplitMix64>::new_with_rng(spec.edges.clone(), spec.gamma, spec.h, 4, SplitMix64::new(r.next()), Some(gen_state(r, spec.nvars)));
        for _ in 0..r.range(2, 6) {
            g0.timestep(*r.pick(&[1.0, 2.0, 4.0]));
        }
        let sg: serialization::SerializeQmcGraph<FastOps> = g0.into();
        // look for an rng seed under which one RVB update re-bonds an operator
        let mut seed = r.next();
        let mut rebonded = false;
        for _ in 0..40 {
            seed = r.next();
            let mut refrun: G<RecRng> = sg.clone().into_qmc(RecRng::new(seed));
            let b = snap_g(&refrun);
            if catch(|| {
                refrun.single_rvb_sweep(Some(1));
            })
            .is_err()
            {
                continue;
            }
            let a = snap_g(&refrun);
            if skeleton(&a) != skeleton(&b) {
                rebonded = true;
                break;
            }
        }
        if !rebonded {
            continue;
        }
        let base: G<RecRng> = sg.clone().into_qmc(RecRng::new(seed));
        stat("f12.rebonding_updates", 1);
        // number of words drawn: probe each position with the word 0 (and the largest word)
        let log_len = count_words(&sg, seed);
        for pos in 0..log_len {
            for word in [0u64, 1u64 << 11] {
                let mut script = log_prefix(&sg, seed, pos);
                script.push(word);
                let mut g: G<RecRng> = sg.clone().into_qmc(RecRng::scripted(script, seed ^ 0x55));
                let bb = snap_g(&g);
                let call = format!("single_rvb_sweep(Some(1))[word{}:={}]", pos, word);
                let ok = ising_single(ctx, &mut g, "rvb", &call, |g| {
                    g.single_rvb_sweep(Some(1));
                });
                let _ = (ok, &bb);
            }
        }
        found += 1;
        let _ = &base;
    }
    if found > 0 {
        stat("f12.configs", found);
    }
}

fn count_words(sg: &serialization::SerializeQmcGraph<FastOps>, seed: u64) -> usize {
    log_prefix(sg, seed, usize::MAX).len()
}

fn log_prefix(sg: &serialization::SerializeQmcGraph<FastOps>, seed: u64, n: usize) -> Vec<u64> {
    // re-run the reference and read the words through a counting wrapper
    struct Tap {
        inner: RecRng,
    }
    impl RngCore for Tap {
        fn next_u32(&mut self) -> u32 {
            self.inner.next_u32()
        }
        fn next_u64(&mut self) -> u64 {
            self.inner.next_u64()
        }
        fn fill_bytes(&mut self, d: &mut [u8]) {
            self.inner.fill_bytes(d)
        }
        fn try_fill_bytes(&mut self, d: &mut [u8]) -> Result<(), rand::Error> {
            self.inner.try_fill_bytes(d)
        }
    }
    let g: G<Tap> = sg.clone().into_qmc(Tap { inner: RecRng::new(seed) });
    let mut g = g;
    g.single_rvb_sweep(Some(1));
    let (_, tap): (serialization::SerializeQmcGraph<FastOps>, Tap) = g.into();
    let log = tap.inner.log;
    log.into_iter().take(n).collect()
}

// ------------------------------------------------------------------------------------------
// mode swapwit: ONE fixed, seed-independent witness for finding F25 (defect of the unchanged
// library): `can_swap_managers` compares `longitudinal.signum()` and `0.0.signum() == 1.0`, so it
// approves a direct swap between an h = 0 and an h > 0 sampler; the h = 0 sampler then stores
// longitudinal-field operators, which are not terms of its Hamiltonian.
// ------------------------------------------------------------------------------------------
fn swapwit(ctx: &mut Ctx) {
    let edges = vec![((0usize, 1usize), 1.0)];
    let mut a = G::<RecRng>::new_with_rng(edges.clone(), 0.5, 0.0, 4, RecRng::new(1), Some(vec![false, true]));
    let mut b = G::<RecRng>::new_with_rng(edges, 0.5, 0.5, 4, RecRng::new(2), Some(vec![true, true]));
    let tok_a = ising_view(&a).token;
    let tok_b = ising_view(&b).token;
    let (nb_a, nb_b) = (ising_view(&a).nbonds, ising_view(&b).nbonds);
    let field_ops = |g: &G<RecRng>| snap_g(g).ops.iter().filter(|o| o.bond >= 3).count();
    let mut steps = 0;
    while field_ops(&b) == 0 && steps < 1000 {
        b.timestep(2.0);
        steps += 1;
    }
    let can_ab = a.can_swap_managers(&b).is_ok();
    let can_ba = b.can_swap_managers(&a).is_ok();
    let nfield = field_ops(&b);
    a.swap_manager_and_state(&mut b);
    // the usual oracle, on the sampler with h = 0 and ITS Hamiltonian
    let sa = snap_g(&a);
    let fold = fold_g(&a);
    let verdict = {
        let hv = ising_view(&a);
        oracle_config(a.get_manager_ref(), &sa, &hv, &fold)
    };
    // further facts about the unchanged library (for the notes; not part of the verdict)
    let verify_says = a.verify();
    let mut a2 = a.clone();
    let next_step = catch(move || {
        a2.timestep(2.0);
        a2.verify()
    });
    let a3 = a.clone();
    let conv = catch(move || {
        let mut q = a3.into_qmc();
        q.timestep(2.0);
    });
    let facts = format!(
        "b stepped {} times at beta=2 until it held {} field op(s); can_swap_managers a->b {} b->a {}; after a.swap_manager_and_state(&mut b): a = {} ; a.verify() = {}; next a.timestep(2): {}; a.into_qmc() then timestep(2): {}",
        steps,
        nfield,
        can_ab,
        can_ba,
        sa.text,
        verify_says,
        match &next_step {
            Ok(v) => format!("no panic, verify() = {}", v),
            Err(e) => format!("panicked: {}", e),
        },
        match &conv {
            Ok(()) => "no panic".to_string(),
            Err(e) => format!("panicked: {}", e),
        }
    );
    stat("swapwit.field_ops_moved", nfield);
    let oracle = match verdict {
        Err(e) if can_ab && can_ba => Err(format!("{} ({}) [F25: can_swap_managers accepts h = 0 with h != 0]", e, facts)),
        Err(e) => Err(format!("{} ({})", e, facts)),
        Ok(()) => Ok(()),
    };
    // fixed input line: the two Hamiltonians only; the driver answers from the model of the guard
    let input = format!("swapwit can_swap_managers+swap_manager_and_state {} {}", tok_a, tok_b);
    let output = format!("can:{} can_rev:{} nbonds:{},{}", can_ab as u8, can_ba as u8, nb_a, nb_b);
    emit(true, &input, &output, Some(oracle));
    ctx.cases += 1;
}

// ------------------------------------------------------------------------------------------
// mode loopzero: scripted exit-leg draws of the loop update (generic samplers). Every draw
// position of a recorded `loop_update()` is re-run with the word replaced by 0, 2^11 (both make
// `gen_range(0.0..total)` return exactly 0.0), the largest word, and words landing just below /
// at / just above cumulative boundaries c_j/total of the leg weights of the stored bonds (dyadic
// weights: reachable exactly). Any word is a legitimate RNG output, so every result must be
// Consistent and Legal (in particular: no op rewritten into a zero matrix element).
// ------------------------------------------------------------------------------------------
struct Ctl {
    count: usize,
    override_at: Option<(usize, u64)>,
    log: Vec<u64>,
}

/// SplitMix64 stream with ONE word replaced at a chosen draw position (controlled from outside;
/// clones share the control block but carry their own stream position).
#[derive(Clone)]
struct CtlRng {
    stream: SplitMix64,
    ctl: std::rc::Rc<std::cell::RefCell<Ctl>>,
}
impl CtlRng {
    fn word(&mut self) -> u64 {
        let w = self.stream.next();
        let mut c = self.ctl.borrow_mut();
        let i = c.count;
        c.count += 1;
        let w = match c.override_at {
            Some((p, ow)) if p == i => ow,
            _ => w,
        };
        c.log.push(w);
        w
    }
}
impl RngCore for CtlRng {
    fn next_u32(&mut self) -> u32 {
        (self.word() >> 32) as u32
    }
    fn next_u64(&mut self) -> u64 {
        self.word()
    }
    fn fill_bytes(&mut self, dest: &mut [u8]) {
        for chunk in dest.chunks_mut(8) {
            let w = self.word().to_le_bytes();
            chunk.copy_from_slice(&w[..chunk.len()]);
        }
    }
    fn try_fill_bytes(&mut self, dest: &mut [u8]) -> Result<(), rand::Error> {
        self.fill_bytes(dest);
        Ok(())
    }
}

/// Words whose `gen_range(0.0..total)` value lies at (and one ulp of the 52-bit grid around) a
/// cumulative boundary of the exit-leg weights, for every stored-op state / entrance leg of the
/// bonds present in the configuration.
fn boundary_words<R: rand::Rng>(q: &Qmc<R, FastOps>, present: &[usize], cap: usize) -> Vec<u64> {
    let js = serde_json::to_value(q.get_bonds()).unwrap();
    let mut fr: Vec<(u64, f64, f64)> = vec![]; // (mantissa, c, total)
    for &bi in present {
        let b = &q.get_bonds()[bi];
        let k = js[bi]["vars"].as_array().unwrap().len();
        let pats = patterns(k);
        for i in pats.iter() {
            for o in pats.iter() {
                if !(b.at(i, o).unwrap() > 0.0) {
                    continue;
                }
                for ent in 0..2 * k {
                    let toggle = |ins: &mut Vec<bool>, outs: &mut Vec<bool>, leg: usize| {
                        if leg < k {
                            ins[leg] = !ins[leg]
                        } else {
                            outs[leg - k] = !outs[leg - k]
                        }
                    };
                    let ws: Vec<f64> = (0..2 * k)
                        .map(|ex| {
                            let (mut ii, mut oo) = (i.clone(), o.clone());
                            toggle(&mut ii, &mut oo, ent);
                            toggle(&mut ii, &mut oo, ex);
                            b.at(&ii, &oo).unwrap()
                        })
                        .collect();
                    let total: f64 = ws.iter().sum();
                    if !(total > 0.0) {
                        continue;
                    }
                    let mut c = 0.0;
                    for w in ws.iter().take(2 * k - 1) {
                        c += *w;
                        if c > 0.0 && c < total {
                            let m = ((c / total) * 4503599627370496.0).round() as u64;
                            fr.push((m, c, total));
                        }
                    }
                }
            }
        }
    }
    fr.sort_by(|a, b| a.0.cmp(&b.0));
    fr.dedup_by(|a, b| a.0 == b.0);
    let mut words = vec![];
    let step = std::cmp::max(1, fr.len() / std::cmp::max(1, cap));
    for (m, c, total) in fr.into_iter().step_by(step) {
        for mm in [m.saturating_sub(1), m, m + 1] {
            if mm < (1u64 << 52) {
                let val = (mm as f64 / 4503599627370496.0) * total;
                if val == c {
                    stat("loopzero.exact_boundary_words", 1);
                }
                words.push(mm << 12);
            }
        }
    }
    words
}

fn loopzero(ctx: &mut Ctx, r: &mut SplitMix64) {
    let kind = *r.pick(&[0u64, 0, 6, 6, 2, 4, 5]);
    let nvars = if kind == 6 { r.range(3, 4) as usize } else { r.range(2, 4) as usize };
    let ctl = std::rc::Rc::new(std::cell::RefCell::new(Ctl { count: 0, override_at: None, log: vec![] }));
    let rng = CtlRng { stream: SplitMix64::new(r.next()), ctl: ctl.clone() };
    let st = gen_state(r, nvars);
    let mut q = build_generic_with(r, kind, nvars, st, true, rng);
    for _ in 0..r.range(2, 5) {
        q.timestep(*r.pick(&[1.0, 2.0, 4.0]));
    }
    if q.get_n() == 0 {
        return;
    }
    stat(&format!("loopzero.kind{}", kind), 1);
    let base = q.clone();
    // reference run: how many words does this loop update draw?
    {
        let mut c = ctl.borrow_mut();
        c.count = 0;
        c.override_at = None;
        c.log.clear();
    }
    let mut refrun = base.clone();
    if catch(|| refrun.loop_update()).is_err() {
        return;
    }
    let ndraws = ctl.borrow().log.len();
    let present: Vec<usize> = {
        let mut v: Vec<usize> = snap_q(&base).ops.iter().map(|o| o.bond).collect();
        v.sort_unstable();
        v.dedup();
        v
    };
    let bwords = boundary_words(&base, &present, 10);
    for pos in 0..std::cmp::min(ndraws, 24) {
        let mut words: Vec<u64> = vec![0, 1 << 11, u64::MAX];
        if pos >= 1 && pos <= 3 {
            words.extend(bwords.iter().cloned());
        }
        for w in words {
            {
                let mut c = ctl.borrow_mut();
                c.count = 0;
                c.override_at = Some((pos, w));
                c.log.clear();
            }
            let mut qq = base.clone();
            let call = format!("loop_update[word{}:={}]", pos, w);
            generic_single_x(ctx, &mut qq, "loop", &call, |q| {
                q.loop_update();
                Ok(())
            });
            if w >> 12 == 0 {
                stat("loopzero.zero_draws", 1);
            }
        }
    }
    ctl.borrow_mut().override_at = None;
}

// ------------------------------------------------------------------------------------------
// mode zeroword: the class "an exact tie at 0.0 (or the largest word) stores a zero-weight op",
// for every update kind of both samplers: heat-bath and Metropolis diagonal sweeps, cluster step
// (+ free refresh), RVB update, generic diagonal / cluster / refresh. Each draw position of a
// recorded call is re-run with the word replaced by 0, 2^11 (f64 draws = 0.0 exactly) and
// u64::MAX. Any word is a legitimate RNG output: every result must be Consistent and Legal.
// ------------------------------------------------------------------------------------------
fn new_ctl() -> std::rc::Rc<std::cell::RefCell<Ctl>> {
    std::rc::Rc::new(std::cell::RefCell::new(Ctl { count: 0, override_at: None, log: vec![] }))
}
fn ctl_set(ctl: &std::rc::Rc<std::cell::RefCell<Ctl>>, ov: Option<(usize, u64)>) {
    let mut c = ctl.borrow_mut();
    c.count = 0;
    c.override_at = ov;
    c.log.clear();
}

fn probe_ising(ctx: &mut Ctx, ctl: &std::rc::Rc<std::cell::RefCell<Ctl>>, base: &G<CtlRng>, rel: &str, name: &str, cap: usize, f: &dyn Fn(&mut G<CtlRng>)) {
    ctl_set(ctl, None);
    let mut refrun = base.clone();
    if catch(|| f(&mut refrun)).is_err() {
        return;
    }
    let ndraws = ctl.borrow().log.len();
    stat(&format!("zeroword.{}.draws", name), ndraws);
    for pos in 0..std::cmp::min(ndraws, cap) {
        for w in [0u64, 1 << 11, u64::MAX] {
            ctl_set(ctl, Some((pos, w)));
            let mut g = base.clone();
            let call = format!("{}[word{}:={}]", name, pos, w);
            ising_single(ctx, &mut g, rel, &call, |g| f(g));
        }
    }
    ctl_set(ctl, None);
}

fn probe_generic(ctx: &mut Ctx, ctl: &std::rc::Rc<std::cell::RefCell<Ctl>>, base: &Qmc<CtlRng, FastOps>, rel: &str, name: &str, cap: usize, f: &dyn Fn(&mut Qmc<CtlRng, FastOps>)) {
    ctl_set(ctl, None);
    let mut refrun = base.clone();
    if catch(|| f(&mut refrun)).is_err() {
        return;
    }
    let ndraws = ctl.borrow().log.len();
    stat(&format!("zeroword.{}.draws", name), ndraws);
    for pos in 0..std::cmp::min(ndraws, cap) {
        for w in [0u64, 1 << 11, u64::MAX] {
            ctl_set(ctl, Some((pos, w)));
            let mut q = base.clone();
            let call = format!("{}[word{}:={}]", name, pos, w);
            generic_single_x(ctx, &mut q, rel, &call, |q| {
                f(q);
                Ok(())
            });
        }
    }
    ctl_set(ctl, None);
}

fn zeroword(ctx: &mut Ctx, r: &mut SplitMix64, cap: usize) {
    // ---- Ising sampler ----
    {
        let with_h = r.chance(2, 3);
        let spec = gen_ising_spec(r, Some(with_h));
        let ctl = new_ctl();
        let rng = CtlRng { stream: SplitMix64::new(r.next()), ctl: ctl.clone() };
        let cutoff = r.range(2, 8) as usize;
        let st = gen_state(r, spec.nvars);
        let mut g = G::<CtlRng>::new_with_rng(spec.edges.clone(), spec.gamma, spec.h, cutoff, rng, Some(st));
        let hb = r.chance(2, 3);
        if hb {
            g.set_enable_heatbath(true);
        }
        let warm = r.range(1, 4);
        if catch(|| {
            for _ in 0..warm {
                g.timestep(*r.pick(&[0.5, 1.0, 2.0]));
            }
        })
        .is_err()
        {
            return;
        }
        let beta = *r.pick(&[0.5, 1.0, 2.0, 4.0]);
        let name = if hb { "single_diagonal_step(heatbath)" } else { "single_diagonal_step(metropolis)" };
        probe_ising(ctx, &ctl, &g, "diag", name, cap, &|g| g.single_diagonal_step(beta));
        probe_ising(ctx, &ctl, &g, "icluster", "single_cluster_step", cap / 2, &|g| {
            g.single_cluster_step();
        });
        if r.coin() {
            probe_ising(ctx, &ctl, &g, "rvb", "single_rvb_sweep(Some(1))", cap / 2, &|g| {
                g.single_rvb_sweep(Some(1));
            });
        }
    }
    // ---- generic sampler ----
    {
        let kind = r.below(8);
        let nvars = if kind == 6 { r.range(3, 4) as usize } else { r.range(2, 4) as usize };
        let ctl = new_ctl();
        let rng = CtlRng { stream: SplitMix64::new(r.next()), ctl: ctl.clone() };
        let st = gen_state(r, nvars);
        let mut q = build_generic_with(r, kind, nvars, st, kind == 0 || kind == 6, rng);
        let hb = r.chance(2, 3);
        q.set_do_heatbath(hb);
        let warm = r.range(1, 3);
        if catch(|| {
            for _ in 0..warm {
                q.timestep(*r.pick(&[0.5, 1.0, 2.0]));
            }
        })
        .is_err()
        {
            return;
        }
        let beta = *r.pick(&[0.5, 1.0, 2.0, 4.0]);
        let name = if hb { "diagonal_update(heatbath)" } else { "diagonal_update(metropolis)" };
        probe_generic(ctx, &ctl, &q, "diag", name, cap, &|q| q.diagonal_update(beta));
        if q.should_do_cluster_update() {
            probe_generic(ctx, &ctl, &q, "gcluster", "cluster_update", cap / 2, &|q| {
                let _ = q.cluster_update();
            });
        }
        probe_generic(ctx, &ctl, &q, "free", "flip_free_bits", 4, &|q| q.flip_free_bits());
    }
}

/// Run one scenario; a panic that escapes the per-call guards (only possible once the real code
/// misbehaves) is reported as a failing case instead of killing the harness.
fn guarded(ctx: &mut Ctx, what: &str, f: impl FnOnce(&mut Ctx)) {
    if let Err(msg) = catch(|| f(ctx)) {
        emit(true, &format!("init {} - 0 - L0: - L0:", what), "rel:1 cons:1 legal:1 fold:PANIC", Some(Err(format!("C06 uncaught panic in {}: {}", what, msg))));
    }
}

fn main() {
    quiet_panics();
    let a = args();
    let mut r = SplitMix64::new(a.seed.wrapping_mul(0x9E3779B97F4A7C15) ^ 0xC06);
    let mut ctx = Ctx { cases: 0 };
    match a.mode.as_str() {
        "walk" | "all" => {
            let (nsc, ncalls) = if a.thorough { (1200, 60) } else { (500, 50) };
            for k in 0..nsc {
                let mut rr = SplitMix64::new(r.next());
                guarded(&mut ctx, "scenario", |ctx| match k % 8 {
                    0 | 4 => ising_scenario(ctx, &mut rr, ncalls, Some(false)),
                    1 => ising_scenario(ctx, &mut rr, ncalls, Some(true)),
                    2 | 6 => generic_scenario(ctx, &mut rr, ncalls),
                    5 => {
                        if (k / 8) % 2 == 0 {
                            field_ladder_scenario(ctx, &mut rr, 30)
                        } else {
                            for _ in 0..3 {
                                hot_cold_swap_scenario(ctx, &mut rr)
                            }
                            for _ in 0..3 {
                                gamma_zero_convert_scenario(ctx, &mut rr)
                            }
                            for _ in 0..2 {
                                overflow_ladder_scenario(ctx, &mut rr)
                            }
                        }
                    }
                    _ => ising_scenario(ctx, &mut rr, ncalls, None),
                });
            }
        }
        "walk7" => {
            // C07: other seeds, longitudinal field in three of four Ising scenarios
            let mut r = SplitMix64::new(a.seed.wrapping_mul(0xD1B54A32D192ED03) ^ 0xC07);
            let (nsc, ncalls) = if a.thorough { (1200, 60) } else { (500, 50) };
            for k in 0..nsc {
                let mut rr = SplitMix64::new(r.next());
                guarded(&mut ctx, "scenario", |ctx| match k % 5 {
                    0 => {
                        if k % 2 == 0 {
                            ising_scenario(ctx, &mut rr, ncalls, Some(false))
                        } else {
                            field_ladder_scenario(ctx, &mut rr, 32)
                        }
                    }
                    2 => generic_scenario(ctx, &mut rr, ncalls),
                    4 => {
                        if (k / 5) % 3 == 0 {
                            for _ in 0..3 {
                                hot_cold_swap_scenario(ctx, &mut rr)
                            }
                        } else if (k / 5) % 3 == 1 {
                            for _ in 0..6 {
                                gamma_zero_convert_scenario(ctx, &mut rr)
                            }
                            for _ in 0..3 {
                                overflow_ladder_scenario(ctx, &mut rr)
                            }
                        } else {
                            field_ladder_scenario(ctx, &mut rr, 32)
                        }
                    }
                    _ => ising_scenario(ctx, &mut rr, ncalls, Some(true)),
                });
            }
        }
        "swapcut" => {
            let n = if a.thorough { 200 } else { 40 };
            for _ in 0..n {
                let mut rr = SplitMix64::new(r.next());
                guarded(&mut ctx, "swapcut", |ctx| swapcut(ctx, &mut rr, 1));
            }
        }
        "f12" => {
            let n = if a.thorough { 1500 } else { 300 };
            for _ in 0..n {
                let mut rr = SplitMix64::new(r.next());
                guarded(&mut ctx, "f12", |ctx| f12(ctx, &mut rr, 1));
            }
        }
        "swapwit" => guarded(&mut ctx, "swapwit", |ctx| swapwit(ctx)),
        "zeroword" => {
            let (n, cap) = if a.thorough { (600, 40) } else { (150, 30) };
            for _ in 0..n {
                let mut rr = SplitMix64::new(r.next());
                guarded(&mut ctx, "zeroword", |ctx| zeroword(ctx, &mut rr, cap));
            }
        }
        "loopzero" => {
            let n = if a.thorough { 500 } else { 120 };
            for _ in 0..n {
                let mut rr = SplitMix64::new(r.next());
                guarded(&mut ctx, "loopzero", |ctx| loopzero(ctx, &mut rr));
            }
        }
        m => {
            eprintln!("unknown mode {}", m);
            std::process::exit(2);
        }
    }
    stat("cases", ctx.cases);
}
