//! C19 — classical Ising sampler (`qmc::classical::graph::GraphState`).
//!
//! Modes (each prints `CASE` lines, see lib.rs):
//!   traj     exact trajectories of `do_time_step` with a recorded RNG (all move kinds, update counts,
//!            importance sampling on/off); oracle: `get_energy` == direct sum over edges and biases,
//!            number of spins unchanged, after every step.
//!   api      random interleavings of every public call (new, new_with_state_and_rng, get_energy, set_state,
//!            clone_state/state_ref, do_time_step, enable_edge_importance_sampling, clone, Debug, get_state);
//!            oracle after every call: get_energy() (twice) == direct sum of the state read back.
//!   thr      acceptance probability of the spin / edge move measured by bisection on the word that
//!            feeds `gen::<f64>()`; compared with the model's `exp(-beta dE)`.
//!   imp      boundaries of the importance-sampling table measured by bisection on the `gen_range(0.0..total)` word.
//!   kern     exact one-step kernel of the real code for spin / edge / worm moves on 2..3 spins, obtained
//!            by exploring the tree of RNG draws (no model involved: the kind of every draw and the
//!            range of every `gen_range(0..n)` are recognised from the behaviour of the real code on a
//!            grid of words); oracle: detailed balance w.r.t. exp(-beta * get_energy) (spin, edge, and
//!            worm with zero biases), rows sum to 1.
//!   witness-worm / witness-asym   fixed inputs: the worm kernel on the F11 / F17 witness graphs (oracle:
//!            stationarity w.r.t. the reported energy -> FAIL on the unchanged tree = known findings).
//!   witness-parity  fixed inputs (seed independent): long runs of `do_time_step(.., only_basic_moves = true)` on the
//!            4-spin ring; oracle: the chain must leave the up-spin parity class of its start state and visit all 2^n
//!            states ("repeated time steps sample spin states with probability ∝ exp(-beta E)" gives every state positive
//!            probability). beta = 0 with an even spin-update count -> FAIL on the unchanged tree = known finding F29
//!            (every flip accepted, edge moves flip two spins: parity conserved); control with an odd count -> ok.
//!            Output token = what was observed (`conserved` / `mixing`); the model answers with its decision of the
//!            irreducibility condition (M) of `Qmc.C19.step_irreducible_iff`.
//!   regress-imp / regress-noedges  fixed inputs of the fixed findings F13 (importance sampling with signed
//!            total J <= 0, all J = 0) and F18 (graph without edges).

use qmc::classical::graph::{Edge, GraphState};
use rand::{Error, RngCore};
use std::cell::RefCell;
use std::rc::Rc;
use vh::*;

// ------------------------------------------------------------------------------------------------
// RNG shared with the harness: scripted words, then either a SplitMix64 fallback (recording mode)
// or the sentinel word 0 (probe mode; `overrun` counts how many sentinel words were requested).
// ------------------------------------------------------------------------------------------------
#[derive(Debug)]
struct Inner {
    script: Vec<u64>,
    pos: usize,
    fallback: Option<SplitMix64>,
    log: Vec<u64>,
    overrun: usize,
}
#[derive(Clone, Debug)]
struct Shared(Rc<RefCell<Inner>>);
impl Shared {
    fn recording(script: Vec<u64>, seed: u64) -> Self {
        Shared(Rc::new(RefCell::new(Inner { script, pos: 0, fallback: Some(SplitMix64::new(seed)), log: vec![], overrun: 0 })))
    }
    fn probe(script: &[u64]) -> Self {
        Shared(Rc::new(RefCell::new(Inner { script: script.to_vec(), pos: 0, fallback: None, log: vec![], overrun: 0 })))
    }
    fn word(&self) -> u64 {
        let mut i = self.0.borrow_mut();
        let w = if i.pos < i.script.len() {
            i.script[i.pos]
        } else if let Some(f) = i.fallback.as_mut() {
            f.next()
        } else {
            i.overrun += 1;
            0
        };
        i.pos += 1;
        i.log.push(w);
        w
    }
    fn log(&self) -> Vec<u64> {
        self.0.borrow().log.clone()
    }
    fn overrun(&self) -> usize {
        self.0.borrow().overrun
    }
    fn consumed(&self) -> usize {
        self.0.borrow().pos
    }
}
impl RngCore for Shared {
    fn next_u32(&mut self) -> u32 {
        (self.word() >> 32) as u32
    }
    fn next_u64(&mut self) -> u64 {
        self.word()
    }
    fn fill_bytes(&mut self, dest: &mut [u8]) {
        for chunk in dest.chunks_mut(8) {
            let w = self.word().to_le_bytes();
            chunk.copy_from_slice(&w[..chunk.len()]);
        }
    }
    fn try_fill_bytes(&mut self, dest: &mut [u8]) -> Result<(), Error> {
        self.fill_bytes(dest);
        Ok(())
    }
}

// ------------------------------------------------------------------------------------------------
// inputs
// ------------------------------------------------------------------------------------------------
#[derive(Clone, Debug)]
struct Model {
    edges: Vec<(Edge, f64)>,
    biases: Vec<f64>,
}
impl Model {
    fn n(&self) -> usize {
        self.biases.len()
    }
    fn show_edges(&self) -> String {
        if self.edges.is_empty() {
            "-".into()
        } else {
            self.edges.iter().map(|((a, b), j)| format!("{}:{}:{}", a, b, rat(*j))).collect::<Vec<_>>().join(",")
        }
    }
    fn show(&self) -> String {
        format!("{} {}", self.show_edges(), rats(&self.biases))
    }
    /// The property's own definition of the energy, computed without the library:
    /// sum over edges of J * (+1 if aligned else -1)  -  sum over sites of b_i * sigma_i.
    fn direct_energy(&self, s: &[bool]) -> f64 {
        let mut e = 0.0;
        for ((a, b), j) in &self.edges {
            e += j * if s[*a] == s[*b] { 1.0 } else { -1.0 };
        }
        for (i, b) in self.biases.iter().enumerate() {
            e -= b * if s[i] { 1.0 } else { -1.0 };
        }
        e
    }
    /// the same model in energy units smaller by the exact factor 2^-k (f64 and rationals stay exact)
    fn scaled(&self, k: i32) -> Model {
        let c = 2f64.powi(-k);
        Model { edges: self.edges.iter().map(|(e, j)| (*e, j * c)).collect(), biases: self.biases.iter().map(|b| b * c).collect() }
    }
    /// energy scale of the model (for relative tolerances): sum |J| + sum |b|, 1 if all are zero
    fn escale(&self) -> f64 {
        let t: f64 = self.total_abs_j() + self.biases.iter().map(|b| b.abs()).sum::<f64>();
        if t > 0.0 {
            t
        } else {
            1.0
        }
    }
    /// total importance weight: sum of |J|
    fn total_abs_j(&self) -> f64 {
        self.edges.iter().map(|e| e.1.abs()).sum()
    }
    fn graph(&self, state: &[bool], rng: Shared, imp: bool) -> GraphState<Shared> {
        let mut g = GraphState::new_with_state_and_rng(state.to_vec(), &self.edges, &self.biases, rng);
        if imp {
            g.enable_edge_importance_sampling(true);
        }
        g
    }
}

fn nonzero_dyadic(g: &mut SplitMix64, lo: i64, hi: i64, den: i64) -> f64 {
    loop {
        let x = g.dyadic(lo, hi, den);
        if x != 0.0 {
            return x;
        }
    }
}

/// Random graph on n spins without self-loops. `shape`: 0 frustrated triangle(+extras), 1 multi-edges,
/// 2 random both signs, 3 ring, 4 all positive, 5 single negative edge first, 6 one coupling magnitude with random signs.
fn gen_model(g: &mut SplitMix64, n: usize, shape: u64) -> Model {
    let mut edges: Vec<(Edge, f64)> = vec![];
    let pair = |g: &mut SplitMix64| -> (usize, usize) {
        let a = g.below(n as u64) as usize;
        let mut b = g.below(n as u64 - 1) as usize;
        if b >= a {
            b += 1;
        }
        (a, b)
    };
    match shape {
        0 if n >= 3 => {
            let j = nonzero_dyadic(g, 0, 2, 8).abs();
            edges.push(((0, 1), j));
            edges.push(((1, 2), j));
            edges.push(((2, 0), j));
            for _ in 0..g.below(3) {
                edges.push((pair(g), nonzero_dyadic(g, -2, 2, 8)));
            }
        }
        1 => {
            let m = 1 + g.below(3);
            for _ in 0..m {
                let p = pair(g);
                for _ in 0..(2 + g.below(2)) {
                    let q = if g.coin() { p } else { (p.1, p.0) };
                    edges.push((q, nonzero_dyadic(g, -2, 2, 8)));
                }
            }
        }
        3 => {
            for i in 0..n {
                if n > 2 || i == 0 {
                    edges.push(((i, (i + 1) % n), nonzero_dyadic(g, -2, 2, 8)));
                }
            }
        }
        4 | 5 => {
            let m = 1 + g.below(2 * n as u64);
            for _ in 0..m {
                edges.push((pair(g), nonzero_dyadic(g, 0, 2, 8).abs()));
            }
            if shape == 5 && edges.len() >= 2 {
                let tot: f64 = edges.iter().skip(1).map(|e| e.1).sum();
                // negative first entry, total stays positive
                let k = (tot * 8.0) as i64;
                if k >= 2 {
                    edges[0].1 = -(g.range(1, k - 1) as f64) / 8.0;
                }
            }
        }
        6 => {
            // one coupling magnitude, random signs: many zero-energy worm moves, long worm paths
            let mag = nonzero_dyadic(g, 0, 2, 8).abs();
            let m = n as u64 - 1 + g.below(n as u64 + 1);
            for i in 0..m {
                let p = if (i as usize) < n - 1 && g.chance(2, 3) { (i as usize, i as usize + 1) } else { pair(g) };
                edges.push((p, if g.chance(1, 3) { -mag } else { mag }));
            }
        }
        _ => {
            let m = 1 + g.below(2 * n as u64);
            for _ in 0..m {
                let j = if g.chance(1, 12) { 0.0 } else { g.dyadic(-2, 2, 8) };
                edges.push((pair(g), j));
            }
        }
    }
    let biases: Vec<f64> = match g.below(3) {
        0 => vec![0.0; n],
        _ => (0..n).map(|_| g.dyadic(-2, 2, 8)).collect(),
    };
    Model { edges, biases }
}

/// `gen_model`, but with probability 1/4 (n >= 3) the last site appears in no edge and carries a non-zero bias
/// (diluted lattice / bias-only site). Returns the model and the isolated site, if any.
fn gen_model_iso(g: &mut SplitMix64, n: usize, shape: u64) -> (Model, Option<usize>) {
    if n >= 3 && g.chance(1, 4) {
        let mut m = gen_model(g, n - 1, shape);
        m.biases.push(nonzero_dyadic(g, -2, 2, 8));
        stat("graphs_with_isolated_biased_site", 1);
        (m, Some(n - 1))
    } else {
        (gen_model(g, n, shape), None)
    }
}

/// Dense graphs: adjacency rows with >= 16 entries (and lengths that are not multiples of 4).
/// kind 0: complete graph K17..K22; 1: star hub with 17..23 leaves (+ a few leaf-leaf edges);
/// 2: multigraph on 3..4 sites, site 0 joined to site 1 and site 2 by 17..23 parallel edges in total.
/// `one_mag`: a single coupling magnitude with random signs (zero-energy worm moves), else distinct-ish k/8.
fn gen_dense(g: &mut SplitMix64, kind: u64, one_mag: bool) -> Model {
    let mag = nonzero_dyadic(g, 0, 2, 8).abs();
    let mut coupling = |g: &mut SplitMix64| -> f64 {
        if one_mag {
            if g.coin() {
                mag
            } else {
                -mag
            }
        } else {
            nonzero_dyadic(g, -2, 2, 8)
        }
    };
    let mut edges: Vec<(Edge, f64)> = vec![];
    let n;
    match kind {
        0 => {
            n = 17 + g.below(6) as usize;
            for a in 0..n {
                for b in (a + 1)..n {
                    let e = if g.coin() { (a, b) } else { (b, a) };
                    edges.push((e, coupling(g)));
                }
            }
        }
        1 => {
            let leaves = 17 + g.below(7) as usize;
            n = leaves + 1;
            let hub = g.below(n as u64) as usize;
            for v in 0..n {
                if v != hub {
                    let e = if g.coin() { (hub, v) } else { (v, hub) };
                    edges.push((e, coupling(g)));
                }
            }
            for _ in 0..g.below(4) {
                let a = g.below(n as u64) as usize;
                let b = g.below(n as u64) as usize;
                if a != b && a != hub && b != hub {
                    edges.push(((a, b), coupling(g)));
                }
            }
        }
        _ => {
            n = 3 + g.below(2) as usize;
            let total = 17 + g.below(7) as usize;
            let to1 = 1 + g.below(total as u64 - 1) as usize;
            for i in 0..total {
                let other = if i < to1 { 1 } else { 2 };
                let e = if g.coin() { (0, other) } else { (other, 0) };
                edges.push((e, coupling(g)));
            }
            if n == 4 {
                edges.push(((2, 3), coupling(g)));
            }
            if g.coin() {
                edges.push(((1, 2), coupling(g)));
            }
            // shuffle the edge order (the binding matrix sorts by neighbour, stable in edge order)
            for i in (1..edges.len()).rev() {
                let j = g.below(i as u64 + 1) as usize;
                edges.swap(i, j);
            }
        }
    }
    let biases: Vec<f64> = if g.chance(1, 3) { vec![0.0; n] } else { (0..n).map(|_| g.dyadic(-2, 2, 8)).collect() };
    stat(&format!("dense_graph_kind{}", kind), 1);
    Model { edges, biases }
}

fn rand_state(g: &mut SplitMix64, n: usize) -> Vec<bool> {
    (0..n).map(|_| g.coin()).collect()
}

fn opt(x: Option<usize>) -> String {
    match x {
        None => "-".into(),
        Some(k) => k.to_string(),
    }
}

/// word whose high half makes `gen_range(0..t)` (u8) return `c`
fn u8_word(c: u64, t: u64) -> u64 {
    let v = ((c << 32) + t - 1) / t;
    v << 32
}
/// word that makes `gen_range(0..n)` (usize) return `k` at the first try
fn usize_word(k: u64, n: u64) -> u64 {
    ((((k as u128) << 64) + n as u128 - 1) / n as u128) as u64
}

// ------------------------------------------------------------------------------------------------
// traj
// ------------------------------------------------------------------------------------------------
fn traj_case(m: &Model, beta: f64, imp: bool, ns: Option<usize>, ne: Option<usize>, nw: Option<usize>, basic: bool, s0: &[bool], nsteps: usize, script: Vec<u64>, seed: u64) {
    traj_case_x(m, beta, imp, ns, ne, nw, basic, s0, nsteps, script, seed, None);
}

/// `twin`: states of the same run in other energy units ((J,h,beta) -> (cJ, ch, beta/c), same RNG): the
/// trajectory must be bit-identical (scale invariance of the Boltzmann law). Returns the states visited.
fn traj_case_x(m: &Model, beta: f64, imp: bool, ns: Option<usize>, ne: Option<usize>, nw: Option<usize>, basic: bool, s0: &[bool], nsteps: usize, script: Vec<u64>, seed: u64, twin: Option<(i32, Vec<Vec<bool>>)>) -> Option<Vec<Vec<bool>>> {
    let tol = 1e-9 * m.escale();
    // the harness forces the kind of the first step with its first word: a worm step on a graph without
    // biases must leave get_energy() unchanged (the worm closes at the coupling energy it started from, or is undone)
    let first_is_worm = !basic && script.first() == Some(&u8_word(2, 3));
    let zero_bias = m.biases.iter().all(|b| *b == 0.0);
    let e_start = m.direct_energy(s0);
    let rng = Shared::recording(script, seed);
    let handle = rng.clone();
    let mm = m.clone();
    let s0v = s0.to_vec();
    let r = catch(move || {
        let mut g = mm.graph(&s0v, rng, imp);
        let mut outs = vec![];
        let mut visited: Vec<Vec<bool>> = vec![];
        let mut oracle: Result<(), String> = Ok(());
        for step in 0..nsteps {
            g.do_time_step(beta, ns, ne, nw, Some(basic)).unwrap();
            let s = g.clone_state();
            let e = g.get_energy();
            let d = mm.direct_energy(&s);
            if s.len() != mm.n() && oracle.is_ok() {
                oracle = Err(format!("step {}: number of spins changed from {} to {}", step, mm.n(), s.len()));
            }
            if (e - d).abs() > tol && oracle.is_ok() {
                oracle = Err(format!("step {}: get_energy()={:e} but direct sum over edges and biases={:e} at state {}", step, e, d, bits(&s)));
            }
            if step == 0 && first_is_worm && zero_bias && (e - e_start).abs() > tol && oracle.is_ok() {
                oracle = Err(format!("worm step without biases changed get_energy() from {:e} to {:e} (state {} -> {})", e_start, e, bits(&s0v), bits(&s)));
            }
            if let Some((k, want)) = &twin {
                if oracle.is_ok() && want.get(step) != Some(&s) {
                    oracle = Err(format!(
                        "scale invariance: step {} gives state {} but the same run (same RNG words) with J, h multiplied by 2^{} and beta divided by it gives {}",
                        step, bits(&s), k, want.get(step).map(|w| bits(w)).unwrap_or_default()
                    ));
                }
            }
            outs.push(format!("{} {}", bits(&s), rat(e)));
            visited.push(s);
        }
        (outs, oracle, visited)
    });
    let words = handle.log();
    let input = format!(
        "traj {} {} {} {} {} {} {} {} {} {}",
        m.show(),
        rat(beta),
        imp as u8,
        opt(ns),
        opt(ne),
        opt(nw),
        basic as u8,
        bits(s0),
        nsteps,
        list(&words)
    );
    match r {
        Ok((outs, oracle, visited)) => {
            emit(true, &input, &format!("{} ok", outs.join(" ")), Some(oracle));
            Some(visited)
        }
        Err(p) => {
            emit(true, &input, "PANIC", Some(Err(format!("do_time_step panicked: {}", p))));
            None
        }
    }
}

/// exponents of the small-unit stream: energies in units of 2^-k (k <= 50 keeps every non-zero worm energy
/// difference of the k/8 couplings above the code's absolute tolerance f64::EPSILON = 2^-52)
const SCALES: [i32; 4] = [20, 36, 45, 50];

fn mode_traj(a: &Args, g: &mut SplitMix64) {
    let ncases = if a.thorough { 30000 } else { 2000 };
    for c in 0..ncases {
        let n = 2 + g.below(5) as usize;
        let imp = g.chance(1, 3);
        // worm steps (every third case) mostly on one-magnitude graphs, where worms travel
        let shape = if c as u64 % 3 == 2 && g.chance(2, 3) { 6 } else { g.below(7) };
        let (mut m, _) = gen_model_iso(g, n, shape);
        // dense graphs (rows with >= 16 bonds): complete graphs, star hubs, heavy multigraphs
        if g.chance(1, 8) {
            let kind = g.below(3);
            let one_mag = g.coin();
            m = gen_dense(g, kind, one_mag);
            stat("traj_dense", 1);
        }
        let n = m.n();
        // worm-first cases: half without biases, where a worm update must conserve the reported energy
        if c as u64 % 3 == 2 && g.coin() {
            m.biases = vec![0.0; n];
        }
        let beta = match g.below(8) {
            0 => 0.0,
            1 => 4.0,
            _ => g.dyadic(0, 2, 8),
        };
        let cnt = |g: &mut SplitMix64, hi: u64| -> Option<usize> {
            if g.chance(1, 3) {
                None
            } else {
                Some(g.below(hi + 1) as usize)
            }
        };
        let ns = cnt(g, 4);
        let ne = cnt(g, 4);
        let nw = cnt(g, 3);
        let basic = g.chance(1, 3);
        let s0 = rand_state(g, n);
        let nsteps = 1 + g.below(4) as usize;
        // the first word picks the move kind; cycle through kinds so that each is exercised equally
        let t = if basic { 2 } else { 3 };
        let script = vec![u8_word(c as u64 % t, t)];
        stat(&format!("traj_n{}", n), 1);
        stat(&format!("traj_kind{}", c as u64 % t), 1);
        if imp {
            stat("traj_importance", 1);
        }
        let seed = g.next();
        let visited = traj_case_x(&m, beta, imp, ns, ne, nw, basic, &s0, nsteps, script.clone(), seed, None);
        // small-unit twin: every worm-first case and a quarter of the others
        if c as u64 % t == 2 || g.chance(1, 4) {
            if let Some(v) = visited {
                let k = *g.pick(&SCALES);
                if beta * 2f64.powi(k) < 2f64.powi(58) {
                    stat(&format!("traj_small_units_2^-{}", k), 1);
                    traj_case_x(&m.scaled(k), beta * 2f64.powi(k), imp, ns, ne, nw, basic, &s0, nsteps, script, seed, Some((k, v)));
                }
            }
        }
    }
}

// ------------------------------------------------------------------------------------------------
// thr: acceptance probability by bisection
// ------------------------------------------------------------------------------------------------
/// run one spin (kind 0) or edge (kind 1) update through `do_time_step` with the given script (probe RNG)
fn one_move(m: &Model, beta: f64, imp: bool, kind: u64, s0: &[bool], script: &[u64]) -> (Vec<bool>, usize, usize) {
    let rng = Shared::probe(script);
    let h = rng.clone();
    let mut g = m.graph(s0, rng, imp);
    g.do_time_step(beta, Some(1), Some(1), Some(1), Some(false)).unwrap();
    let _ = kind;
    (g.clone_state(), h.consumed(), h.overrun())
}

fn mode_thr(a: &Args, g: &mut SplitMix64) {
    let ncases = if a.thorough { 15000 } else { 1200 };
    for _ in 0..ncases {
        let n = 2 + g.below(5) as usize;
        let shape = g.below(4);
        let (m, iso) = gen_model_iso(g, n, shape);
        let (m, iso, n) = if g.chance(1, 6) {
            let kind = g.below(3);
            let d = gen_dense(g, kind, false);
            stat("thr_dense", 1);
            let dn = d.n();
            (d, None, dn)
        } else {
            (m, iso, n)
        };
        // dense graphs have large energy differences: smaller beta keeps the thresholds measurable
        let beta = if n > 6 || m.edges.len() > 16 { g.dyadic(0, 1, 16) } else { g.dyadic(0, 3, 8) };
        // a quarter of the cases in small energy units (J, h times 2^-k, beta times 2^k)
        let (m, beta) = if g.chance(1, 4) {
            let k = *g.pick(&SCALES);
            stat("thr_small_units", 1);
            (m.scaled(k), beta * 2f64.powi(k))
        } else {
            (m, beta)
        };
        let s0 = rand_state(g, n);
        let kind = g.below(2);
        let (target, count) = if kind == 0 {
            match iso {
                Some(v) if g.coin() => {
                    stat("thr_spin_isolated_site", 1);
                    (v as u64, n as u64)
                }
                _ => (g.below(n as u64), n as u64),
            }
        } else {
            (g.below(m.edges.len() as u64), m.edges.len() as u64)
        };
        let prefix = vec![u8_word(kind, 3), usize_word(target, count)];
        let input = format!("thr {} {} {} {} {}", m.show(), rat(beta), if kind == 0 { "spin" } else { "edge" }, target, bits(&s0));
        let mm = m.clone();
        let s0c = s0.clone();
        let r = catch(move || {
            // does the move draw an acceptance word at all?
            let (_, consumed, over) = one_move(&mm, beta, false, kind, &s0c, &prefix);
            let mut sc = prefix.clone();
            sc.push(0);
            let (flipped, _, _) = one_move(&mm, beta, false, kind, &s0c, &sc);
            if over == 0 && consumed == 2 {
                return ("nodraw".to_string(), flipped);
            }
            // bisect: smallest word that is NOT accepted
            let acc = |w: u64| -> bool {
                let mut sc = prefix.clone();
                sc.push(w);
                one_move(&mm, beta, false, kind, &s0c, &sc).0 != s0c
            };
            let p = if acc(u64::MAX) {
                1.0
            } else {
                let (mut lo, mut hi) = (0u64, u64::MAX); // acc(lo), !acc(hi)
                if !acc(0) {
                    hi = 0;
                }
                while hi > lo && hi - lo > 1 {
                    let mid = lo + (hi - lo) / 2;
                    if acc(mid) {
                        lo = mid
                    } else {
                        hi = mid
                    }
                }
                hi as f64 / 18446744073709551616.0
            };
            (format!("~{:e}", p), flipped)
        });
        stat(if kind == 0 { "thr_spin" } else { "thr_edge" }, 1);
        match r {
            Ok((p, flipped)) => {
                if p != "nodraw" {
                    stat("thr_with_draw", 1);
                }
                // oracle (model-independent): the measured acceptance equals exp(-beta*(E_after - E_before)) with the
                // energies reported by the real code, or 1 when that difference is <= 0
                let e0 = m.graph(&s0, Shared::probe(&[]), false).get_energy();
                let e1 = m.graph(&flipped, Shared::probe(&[]), false).get_energy();
                let want = if e1 - e0 > 0.0 { (-beta * (e1 - e0)).exp() } else { 1.0 };
                let got = if p == "nodraw" { 1.0 } else { p[1..].parse::<f64>().unwrap() };
                // the proposal of the move: the chosen site (both endpoints of the chosen edge) flipped; with the
                // uniform draw 0 (or without a draw) the proposal must have been accepted
                let mut proposal = s0.clone();
                if kind == 0 {
                    proposal[target as usize] = !proposal[target as usize];
                } else {
                    let ((a, b), _) = m.edges[target as usize];
                    proposal[a] = !proposal[a];
                    proposal[b] = !proposal[b];
                }
                let oracle = if flipped != proposal {
                    Err(format!("{} move on target {} with uniform draw 0 must be accepted and give {} but the state is {}", if kind == 0 { "spin" } else { "edge" }, target, bits(&proposal), bits(&flipped)))
                } else if (want - got).abs() <= 1e-9 && (p == "nodraw") == (e1 - e0 <= 0.0) {
                    Ok(())
                } else {
                    Err(format!("acceptance {} (draw: {}) but exp(-beta*(E_after-E_before)) = {} with reported energies {} -> {}", got, p != "nodraw", want, e0, e1))
                };
                emit(true, &input, &format!("{} {}", p, bits(&flipped)), Some(oracle))
            }
            Err(e) => emit(true, &input, "PANIC", Some(Err(format!("panicked: {}", e)))),
        }
    }
}

// ------------------------------------------------------------------------------------------------
// imp: boundaries of the importance-sampling table
// ------------------------------------------------------------------------------------------------
fn distinct_pair_model(g: &mut SplitMix64, n: usize, mixed_signs: bool) -> Model {
    let mut pairs: Vec<(usize, usize)> = vec![];
    for a in 0..n {
        for b in (a + 1)..n {
            pairs.push((a, b));
        }
    }
    // shuffle
    for i in (1..pairs.len()).rev() {
        let j = g.below(i as u64 + 1) as usize;
        pairs.swap(i, j);
    }
    let m = (2 + g.below(pairs.len() as u64 - 1) as usize).min(pairs.len());
    let mut edges: Vec<(Edge, f64)> = pairs[..m].iter().map(|p| (*p, nonzero_dyadic(g, 0, 2, 8).abs())).collect();
    if mixed_signs {
        for e in edges.iter_mut() {
            if g.coin() {
                e.1 = -e.1;
            }
        }
    }
    Model { edges, biases: vec![0.0; n] }
}

fn mode_imp(a: &Args, g: &mut SplitMix64) {
    let ncases = if a.thorough { 2000 } else { 150 };
    for c in 0..ncases {
        let n = 3 + g.below(3) as usize;
        let m = distinct_pair_model(g, n, c % 3 != 0);
        let input = format!("imp {} {}", m.show_edges(), n);
        let s0 = vec![false; n];
        let mm = m.clone();
        let r = catch(move || {
            // which edge does word w select (beta = 0: every proposal is accepted; pairs are distinct)
            let sel = |w: u64| -> usize {
                let (s, _, _) = one_move(&mm, 0.0, true, 1, &s0, &[u8_word(1, 3), w, 0]);
                mm.edges.iter().position(|((a, b), _)| (0..s.len()).all(|i| s[i] == (i == *a || i == *b))).expect("flipped pair is an edge")
            };
            let mut bounds = vec![];
            for k in 0..mm.edges.len() - 1 {
                // smallest word selecting an index > k
                let b = if sel(0) > k {
                    0.0
                } else if sel(u64::MAX) <= k {
                    1.0
                } else {
                    let (mut lo, mut hi) = (0u64, u64::MAX);
                    while hi - lo > 1 {
                        let mid = lo + (hi - lo) / 2;
                        if sel(mid) > k {
                            hi = mid
                        } else {
                            lo = mid
                        }
                    }
                    hi as f64 / 18446744073709551616.0
                };
                bounds.push(b);
            }
            bounds
        });
        stat("imp_cases", 1);
        match r {
            Ok(bounds) => {
                // oracle: edge k is selected with probability |J_k| / sum |J|
                let tot = m.total_abs_j();
                let mut acc = 0.0;
                let mut ok = Ok(());
                for (k, b) in bounds.iter().enumerate() {
                    acc += m.edges[k].1.abs();
                    let want = acc / tot;
                    if (want - b).abs() > 1e-9 {
                        ok = Err(format!("boundary {} measured {} expected {}", k, b, want));
                        break;
                    }
                }
                emit(true, &input, &bounds.iter().map(|b| format!("~{:e}", b)).collect::<Vec<_>>().join(" "), Some(ok))
            }
            Err(e) => emit(true, &input, "P", Some(Err(format!("panicked: {}", e)))),
        }
    }
}

// ------------------------------------------------------------------------------------------------
// kern: exact one-step kernel of the real code by exploring the tree of draws
// ------------------------------------------------------------------------------------------------
const GRID: usize = 128; // grid of probe words: j << 57, j = 0..GRID, plus u64::MAX
const MAXN: u64 = 64;

struct Explorer<'a> {
    m: &'a Model,
    beta: f64,
    imp: bool,
    s0: Vec<bool>,
    runs: usize,
    nodes: usize,
    kind: u64,
    /// first violation of "a rejected worm leaves the state unchanged" seen while exploring
    note: Option<String>,
}
type Obs = (usize, usize); // (index of final state, overrun)

fn state_index(s: &[bool]) -> usize {
    s.iter().fold(0usize, |a, b| a * 2 + *b as usize)
}

impl<'a> Explorer<'a> {
    fn run(&mut self, script: &[u64]) -> Obs {
        self.runs += 1;
        let rng = Shared::probe(script);
        let h = rng.clone();
        let mut g = self.m.graph(&self.s0, rng, self.imp);
        g.do_time_step(self.beta, Some(1), Some(1), Some(1), Some(false)).unwrap();
        let s = g.clone_state();
        assert_eq!(s.len(), self.s0.len(), "number of spins changed");
        (state_index(&s), h.overrun())
    }
    fn run1(&mut self, script: &mut Vec<u64>, w: u64) -> Obs {
        script.push(w);
        let o = self.run(script);
        script.pop();
        o
    }

    /// Would `gen_range(0..n)` accept the word `v` at the first try, and with which result?
    fn usize_sample(v: u64, n: u64) -> Option<u64> {
        let zone = (n << n.leading_zeros()).wrapping_sub(1);
        let prod = (v as u128) * (n as u128);
        let (hi, lo) = ((prod >> 64) as u64, prod as u64);
        if lo <= zone {
            Some(hi)
        } else {
            None
        }
    }

    /// Is the behaviour on the probe grid what a `gen_range(0..n)` at this position would produce?
    fn consistent_u(n: u64, words: &[u64], obs: &[Obs]) -> bool {
        let mut rep: Vec<Option<Obs>> = vec![None; n as usize];
        rep[0] = Some(obs[0]);
        let rejected = (obs[0].0, obs[0].1 + 1);
        let mut saw_reject = false;
        for (w, o) in words.iter().zip(obs.iter()) {
            match Self::usize_sample(*w, n) {
                None => {
                    saw_reject = true;
                    if *o != rejected {
                        return false;
                    }
                }
                Some(k) => match rep[k as usize] {
                    None => rep[k as usize] = Some(*o),
                    Some(r) => {
                        if r != *o {
                            return false;
                        }
                    }
                },
            }
        }
        saw_reject
    }

    fn breaks(&mut self, script: &mut Vec<u64>, lo: u64, olo: Obs, hi: u64, ohi: Obs, out: &mut Vec<(u64, Obs)>) {
        // out collects (first word of a new constant piece, its behaviour)
        if olo == ohi {
            return;
        }
        if hi - lo == 1 {
            out.push((hi, ohi));
            return;
        }
        let mid = lo + (hi - lo) / 2;
        let om = self.run1(script, mid);
        self.breaks(script, lo, olo, mid, om, out);
        self.breaks(script, mid, om, hi, ohi, out);
    }

    /// distribution over final states reached from the node `script`, weight `w`
    fn explore(&mut self, script: &mut Vec<u64>, w: f64, out: &mut [f64], depth: usize) -> Result<(), String> {
        self.nodes += 1;
        if depth > 24 {
            return Err("draw tree deeper than 24".into());
        }
        let (fin, over) = self.run(script);
        if over == 0 {
            out[fin] += w;
            return Ok(());
        }
        let mut words: Vec<u64> = (0..GRID as u64).map(|j| j << 57).collect();
        words.push(u64::MAX);
        let obs: Vec<Obs> = words.clone().iter().map(|v| self.run1(script, *v)).collect();
        let cons: Vec<u64> = (1..=MAXN).filter(|n| Self::consistent_u(*n, &words, &obs)).collect();
        if cons.len() > 1 {
            return Err(format!("draw {} is compatible with gen_range(0..n) for several n: {:?}", script.len(), cons));
        }
        if let [n] = cons[..] {
            for k in 0..n {
                script.push(usize_word(k, n));
                let r = self.explore(script, w / n as f64, out, depth + 1);
                script.pop();
                r?;
            }
            return Ok(());
        }
        // threshold draw (gen::<f64>() against a probability, or gen_range(0.0..total) against a table):
        // behaviour is piecewise constant in the word; find the pieces.
        // Guard: a threshold draw never re-draws, and in the spin / worm update it is the last draw. If some probe
        // word needed more words, this is a gen_range(0..n) with n > MAXN (long candidate list): no verdict.
        if self.kind != 1 && obs.iter().any(|o| o.1 != 0) {
            return Err(format!("draw {} is neither a recognisable gen_range(0..n<= {}) nor a final threshold draw", script.len(), MAXN));
        }
        // finer grid for the pieces (2048 cells): the smallest importance share of the generated graphs is
        // (1/8) / (24 * 2) = 1/384, so no piece can hide inside one cell
        let mut words: Vec<u64> = (0..2048u64).map(|j| j << 53).collect();
        words.push(u64::MAX);
        let obs: Vec<Obs> = words.clone().iter().map(|v| self.run1(script, *v)).collect();
        let mut pieces: Vec<(u64, Obs)> = vec![(0, obs[0])];
        for i in 0..words.len() - 1 {
            let mut b = vec![];
            self.breaks(script, words[i], obs[i], words[i + 1], obs[i + 1], &mut b);
            pieces.extend(b);
        }
        if self.kind == 2 && pieces.len() >= 2 && self.note.is_none() {
            // worm: the only threshold draw is the final acceptance test; the piece of the largest words is
            // "rejected" and must give back the start state
            let (w, (fin, _)) = pieces[pieces.len() - 1];
            if fin != state_index(&self.s0) {
                let n = self.s0.len();
                let name: String = (0..n).map(|i| if (fin >> (n - 1 - i)) & 1 == 1 { '1' } else { '0' }).collect();
                let mut sc = script.clone();
                sc.push(w);
                self.note = Some(format!("rejected worm (acceptance draw word {}) left the state {} instead of the start state {}; script {}", w, name, bits(&self.s0), list(&sc)));
            }
        }
        for i in 0..pieces.len() {
            let start = pieces[i].0;
            let end: u128 = if i + 1 < pieces.len() { pieces[i + 1].0 as u128 } else { 1u128 << 64 };
            let measure = (end - start as u128) as f64 / 18446744073709551616.0;
            script.push(start);
            let r = self.explore(script, w * measure, out, depth + 1);
            script.pop();
            r?;
        }
        Ok(())
    }
}

/// kernel K[a][b] of one update of the given kind (0 spin, 1 edge, 2 worm) on all 2^n states
fn real_kernel(m: &Model, beta: f64, imp: bool, kind: u64) -> Result<(Vec<Vec<f64>>, usize, usize, Option<String>), String> {
    let n = m.n();
    let ns = 1usize << n;
    let mut k = vec![vec![0.0; ns]; ns];
    let (mut runs, mut nodes) = (0, 0);
    let mut note = None;
    for a in 0..ns {
        let s0: Vec<bool> = (0..n).map(|i| (a >> (n - 1 - i)) & 1 == 1).collect();
        let mut ex = Explorer { m, beta, imp, s0, runs: 0, nodes: 0, kind, note: None };
        let mut script = vec![u8_word(kind, 3)];
        ex.explore(&mut script, 1.0, &mut k[a], 0)?;
        runs += ex.runs;
        nodes += ex.nodes;
        if note.is_none() {
            note = ex.note;
        }
    }
    Ok((k, runs, nodes, note))
}

fn energies(m: &Model) -> Vec<f64> {
    let n = m.n();
    (0..1usize << n)
        .map(|a| {
            let s: Vec<bool> = (0..n).map(|i| (a >> (n - 1 - i)) & 1 == 1).collect();
            m.graph(&s, Shared::probe(&[]), false).get_energy()
        })
        .collect()
}

/// detailed balance and invariance of exp(-beta E_reported) under the measured kernel
fn balance_oracle(m: &Model, beta: f64, k: &[Vec<f64>]) -> Result<(), String> {
    let e = energies(m);
    let emin = e.iter().cloned().fold(f64::INFINITY, f64::min);
    let pi: Vec<f64> = e.iter().map(|x| (-beta * (x - emin)).exp()).collect();
    let ns = pi.len();
    let n = m.n();
    let name = |a: usize| -> String { (0..n).map(|i| if (a >> (n - 1 - i)) & 1 == 1 { '1' } else { '0' }).collect() };
    for a in 0..ns {
        let row: f64 = k[a].iter().sum();
        if (row - 1.0).abs() > 1e-9 {
            return Err(format!("row {} of the measured kernel sums to {}", name(a), row));
        }
    }
    for b in 0..ns {
        let inflow: f64 = (0..ns).map(|a| pi[a] * k[a][b]).sum();
        if (inflow - pi[b]).abs() > 1e-9 {
            // find the worst pair for the message
            let mut worst = (0, 0, 0.0);
            for a in 0..ns {
                for c in 0..ns {
                    let d = (pi[a] * k[a][c] - pi[c] * k[c][a]).abs();
                    if d > worst.2 {
                        worst = (a, c, d);
                    }
                }
            }
            let (x, y, _) = worst;
            return Err(format!(
                "Boltzmann law of the reported energy is not stationary: sum_a pi(a)K(a,{})={:.6} but pi({})={:.6}; pair {}->{}: K={:.6}, back K={:.6}, reported energies {} and {}",
                name(b), inflow, name(b), pi[b], name(x), name(y), k[x][y], k[y][x], e[x], e[y]
            ));
        }
    }
    for a in 0..ns {
        for b in 0..ns {
            if (pi[a] * k[a][b] - pi[b] * k[b][a]).abs() > 1e-9 {
                return Err(format!(
                    "detailed balance fails for {}->{}: K={:.6}, back K={:.6}, reported energies {} and {}",
                    name(a), name(b), k[a][b], k[b][a], e[a], e[b]
                ));
            }
        }
    }
    Ok(())
}

/// Metropolis specification of the spin / edge update, evaluated with the energies the real code reports:
/// K(a,b) = sum over proposals p with p(a) = b of q_p * min(1, exp(-beta (E_b - E_a)))   (a != b),
/// q_p = 1/N per site, 1/E per edge, or |J_e| / sum |J| with importance sampling.
fn metropolis_oracle(m: &Model, beta: f64, imp: bool, kind: u64, k: &[Vec<f64>]) -> Result<(), String> {
    let e = energies(m);
    let n = m.n();
    let ns = 1usize << n;
    let bit = |i: usize| 1usize << (n - 1 - i);
    let name = |a: usize| -> String { (0..n).map(|i| if a & bit(i) != 0 { '1' } else { '0' }).collect() };
    let props: Vec<(usize, f64)> = if kind == 0 {
        (0..n).map(|i| (bit(i), 1.0 / n as f64)).collect()
    } else {
        let tot = m.total_abs_j();
        m.edges
            .iter()
            .map(|((a, b), j)| (bit(*a) ^ bit(*b), if imp && tot > 0.0 { j.abs() / tot } else { 1.0 / m.edges.len() as f64 }))
            .collect()
    };
    for a in 0..ns {
        let mut want = vec![0.0; ns];
        for (mask, q) in &props {
            let b = a ^ mask;
            let de = e[b] - e[a];
            let acc = if de > 0.0 { (-beta * de).exp().min(1.0) } else { 1.0 };
            want[b] += q * acc;
            want[a] += q * (1.0 - acc);
        }
        for b in 0..ns {
            if (want[b] - k[a][b]).abs() > 1e-9 {
                return Err(format!(
                    "{} update: K({}->{}) measured {:.9} but the Metropolis rule with the reported energies {} -> {} gives {:.9}",
                    if kind == 0 { "spin" } else { "edge" }, name(a), name(b), k[a][b], e[a], e[b], want[b]
                ));
            }
        }
    }
    Ok(())
}

/// worm update on a graph without biases: only states of equal reported energy may be connected
fn worm_conservation_oracle(m: &Model, k: &[Vec<f64>]) -> Result<(), String> {
    if m.biases.iter().any(|b| *b != 0.0) {
        return Ok(());
    }
    let e = energies(m);
    let n = m.n();
    let name = |a: usize| -> String { (0..n).map(|i| if (a >> (n - 1 - i)) & 1 == 1 { '1' } else { '0' }).collect() };
    for a in 0..e.len() {
        for b in 0..e.len() {
            if k[a][b] > 1e-12 && (e[a] - e[b]).abs() > 1e-9 * m.escale() {
                return Err(format!("worm update without biases goes {}->{} with probability {:.6} although get_energy differs: {:e} vs {:e}", name(a), name(b), k[a][b], e[a], e[b]));
            }
        }
    }
    Ok(())
}

fn kern_case(m: &Model, beta: f64, imp: bool, kind: u64, with_balance: bool) {
    let kname = ["spin", "edge", "worm"][kind as usize];
    let input = format!("kern {} {} {} {}", kname, m.show(), rat(beta), imp as u8);
    let mm = m.clone();
    let r = catch(move || real_kernel(&mm, beta, imp, kind));
    match r {
        Ok(Ok((k, runs, nodes, note))) => {
            stat(&format!("kern_{}", kname), 1);
            stat("kern_runs_of_real_code", runs);
            stat("kern_tree_nodes", nodes);
            let out = k.iter().flatten().map(|p| format!("~{:e}", p)).collect::<Vec<_>>().join(" ");
            let mut oracle = rows_oracle(&k);
            if kind == 2 {
                // model-free facts about the worm that hold despite the known findings F11 / F17
                if let Some(n) = note {
                    oracle = oracle.and(Err(n));
                }
                oracle = oracle.and_then(|_| worm_conservation_oracle(m, &k));
            } else {
                oracle = oracle.and_then(|_| metropolis_oracle(m, beta, imp, kind, &k));
            }
            if with_balance {
                oracle = oracle.and_then(|_| balance_oracle(m, beta, &k));
            }
            emit(true, &input, &out, Some(oracle));
        }
        Ok(Err(why)) => {
            // the draw structure could not be recognised: no verdict (counted, never an alarm)
            stat("kern_abstained", 1);
            eprintln!("kern abstained on {}: {}", input, why);
        }
        Err(p) => emit(true, &input, "PANIC", Some(Err(format!("panicked: {}", p)))),
    }
}

fn rows_oracle(k: &[Vec<f64>]) -> Result<(), String> {
    for (a, r) in k.iter().enumerate() {
        let s: f64 = r.iter().sum();
        if (s - 1.0).abs() > 1e-9 {
            return Err(format!("row {} of the measured kernel sums to {}", a, s));
        }
    }
    Ok(())
}

fn small_model(g: &mut SplitMix64, n: usize, imp: bool) -> Model {
    // weights k/8 with k in 1..16 so that each importance share is >= 1/64 (> grid cell 1/128)
    let mut edges: Vec<(Edge, f64)> = vec![];
    let ne = 1 + g.below(if n == 2 { 2 } else { 4 });
    for _ in 0..ne {
        let a = g.below(n as u64) as usize;
        let mut b = g.below(n as u64 - 1) as usize;
        if b >= a {
            b += 1;
        }
        let _ = imp;
        // |J| = k/4, k in 1..8: every importance share is >= 1/32 (> probe grid cell 1/128)
        let j = nonzero_dyadic(g, -2, 2, 4);
        edges.push(((a, b), j));
    }
    let biases = if g.chance(1, 3) { vec![0.0; n] } else { (0..n).map(|_| g.dyadic(-1, 1, 4)).collect() };
    Model { edges, biases }
}

/// 3 spins, edges only between 0 and 1, site 2 isolated with a non-zero bias
fn isolated_site_model(g: &mut SplitMix64) -> Model {
    let mut m = small_model(g, 2, false);
    m.biases.push(nonzero_dyadic(g, -1, 1, 4));
    m
}

fn mode_kern(a: &Args, g: &mut SplitMix64) {
    let ncases = if a.thorough { 600 } else { 60 };
    for c in 0..ncases {
        let n = 2 + (c % 2) as usize;
        let kind = (c / 2) % 2;
        let imp = kind == 1 && g.chance(1, 2);
        let dense = c % 7 == 6;
        let m = if dense {
            // 3..4 sites, 17..23 parallel edges on site 0 (|J| in 1/8..2: every importance share > 1/128)
            stat("kern_dense_multigraph", 1);
            gen_dense(g, 2, false)
        } else if c % 6 >= 4 {
            stat("kern_isolated_biased_site", 1);
            isolated_site_model(g)
        } else {
            small_model(g, n, imp)
        };
        let beta = if dense { g.dyadic(0, 1, 16) } else { g.dyadic(0, 2, 4) };
        let (m, beta) = if c % 5 == 4 {
            let k = *g.pick(&SCALES);
            stat("kern_small_units", 1);
            (m.scaled(k), beta * 2f64.powi(k))
        } else {
            (m, beta)
        };
        kern_case(&m, beta, imp, kind as u64, true);
    }
}

/// worm kernels: correspondence with the model on random small graphs. The balance oracle is applied
/// when all biases are zero (then F11 does not enter); with biases only the rows are checked here and the
/// failing law is pinned by the `witness` mode.
fn mode_kern_worm(a: &Args, g: &mut SplitMix64) {
    let ncases = if a.thorough { 400 } else { 40 };
    for c in 0..ncases {
        // 4 spins (16 states, 256 kernel entries) in the thorough tier and for a few quick cases
        let n = if a.thorough || c % 8 == 7 { 2 + (c % 3) as usize } else { 2 + (c % 2) as usize };
        let mut m = small_model(g, n, false);
        if c % 4 < 2 {
            m.biases = vec![0.0; n];
        }
        if c % 2 == 0 {
            // one coupling magnitude: zero-energy worm moves, paths up to the length bound
            for e in m.edges.iter_mut() {
                e.1 = if e.1 > 0.0 { 1.0 } else { -1.0 };
            }
        }
        let zero_bias = m.biases.iter().all(|b| *b == 0.0);
        let beta = g.dyadic(0, 2, 4);
        if zero_bias {
            stat("kern_worm_zero_bias", 1);
        }
        // every eighth worm kernel on a dense multigraph (rows with >= 16 bonds), one coupling magnitude half of the time
        let (m, beta) = if c % 8 == 5 {
            stat("kern_worm_dense_multigraph", 1);
            let one_mag = g.coin();
            let mut d = gen_dense(g, 2, one_mag);
            if g.coin() {
                d.biases = vec![0.0; d.n()];
            }
            (d, g.dyadic(0, 1, 16))
        } else {
            (m, beta)
        };
        // a third of the worm kernels in small energy units
        let (m, beta) = if c % 3 == 1 {
            let k = *g.pick(&SCALES);
            stat(&format!("kern_worm_small_units_2^-{}", k), 1);
            (m.scaled(k), beta * 2f64.powi(k))
        } else {
            (m, beta)
        };
        kern_case(&m, beta, false, 2, false);
    }
}

/// search mode (not part of the check): worm kernels with zero biases against the balance oracle
fn mode_search_worm(a: &Args, g: &mut SplitMix64) {
    let ncases = if a.thorough { 400 } else { 60 };
    for c in 0..ncases {
        let n = 2 + (c % 3) as usize;
        let mut m = small_model(g, n, false);
        m.biases = vec![0.0; n];
        if c % 2 == 0 {
            for e in m.edges.iter_mut() {
                e.1 = if e.1 > 0.0 { 1.0 } else { -1.0 };
            }
        }
        let beta = g.dyadic(0, 2, 4);
        kern_case(&m, beta, false, 2, true);
    }
}

// ------------------------------------------------------------------------------------------------
// witness: fixed inputs for the findings
// ------------------------------------------------------------------------------------------------
fn mode_witness_worm() {
    // F11: 2 spins, one antiferromagnetic edge, biases (1,1), beta = 1
    let m = Model { edges: vec![((0, 1), 1.0)], biases: vec![1.0, 1.0] };
    kern_case(&m, 1.0, false, 2, true);
    // the pinned tests' graph (triangle, biases -1), beta = 1/2
    let m = Model { edges: vec![((0, 1), 1.0), ((1, 2), 1.0), ((2, 0), 1.0)], biases: vec![-1.0, -1.0, -1.0] };
    kern_case(&m, 0.5, false, 2, true);
}

fn mode_witness_asym() {
    // worm selection asymmetry: triangle 0-1-2 plus pendant spin 3, J = 1, no biases
    let m = Model { edges: vec![((0, 1), 1.0), ((1, 2), 1.0), ((2, 0), 1.0), ((2, 3), 1.0)], biases: vec![0.0; 4] };
    kern_case(&m, 0.5, false, 2, true);
}

/// worm tolerance witness: the worm compares energy differences with the ABSOLUTE tolerance f64::EPSILON = 2^-52;
/// with couplings below 2^-53 every move looks free. Chain 0-1-2, J = 2^-60, no biases (and J = 1 as contrast).
fn mode_witness_tiny() {
    let j = 2f64.powi(-60);
    let m = Model { edges: vec![((0, 1), j), ((1, 2), j)], biases: vec![0.0; 3] };
    kern_case(&m, 1.0, false, 2, false);
    let m1 = Model { edges: vec![((0, 1), 1.0), ((1, 2), 1.0)], biases: vec![0.0; 3] };
    kern_case(&m1, 1.0, false, 2, false);
}

/// parity witness (F29): `paritywit <edges> <biases> <beta> <ns> <ne> <state0> <nsteps> <rngseed>` -> `conserved` | `mixing`.
/// The RNG is a fixed SplitMix64 stream (no scripted words), independent of `--seed`.
fn parity_case(m: &Model, beta: f64, ns: Option<usize>, ne: Option<usize>, s0: &[bool], nsteps: usize, rngseed: u64) {
    let input = format!("paritywit {} {} {} {} {} {} {}", m.show(), rat(beta), opt(ns), opt(ne), bits(s0), nsteps, rngseed);
    let mm = m.clone();
    let s0v = s0.to_vec();
    let r = catch(move || {
        let mut g = mm.graph(&s0v, Shared::recording(vec![], rngseed), false);
        let ups = |s: &[bool]| s.iter().filter(|b| **b).count() % 2;
        let mut prev = ups(g.state_ref());
        let mut changes = 0usize;
        let mut seen = std::collections::BTreeSet::new();
        for _ in 0..nsteps {
            g.do_time_step(beta, ns, ne, None, Some(true)).unwrap();
            let p = ups(g.state_ref());
            if p != prev {
                changes += 1;
            }
            prev = p;
            seen.insert(g.clone_state());
        }
        (changes, seen.len())
    });
    match r {
        Ok((changes, distinct)) => {
            let total = 1usize << m.n();
            // at beta = 0 the target law is uniform: 2000 steps visit all 2^n <= 16 states; for beta > 0 rare states may be missed
            let oracle = if changes > 0 && (beta != 0.0 || distinct == total) {
                Ok(())
            } else {
                Err(format!(
                    "C19 parity of the number of up spins is conserved / not every state is sampled: GraphState::new_with_state_and_rng({}, edges {}, biases {}) then {} x do_time_step({:?}, {:?}, {:?}, None, Some(true)): parity_changes={}, distinct states visited {} of {} (every state has positive Boltzmann probability) [F29: with beta = 0 (or a constant energy) every proposed flip is accepted; an even number of single flips and any number of edge flips conserve the parity]",
                    bits(s0), m.show_edges(), rats(&m.biases), nsteps, beta, ns, ne, changes, distinct, total
                ))
            };
            emit(true, &input, if changes == 0 { "conserved" } else { "mixing" }, Some(oracle));
        }
        Err(p) => emit(true, &input, "PANIC", Some(Err(format!("panicked: {}", p)))),
    }
}

fn mode_witness_parity() {
    let ring = Model { edges: vec![((0, 1), 1.0), ((1, 2), 1.0), ((2, 3), 1.0), ((3, 0), 1.0)], biases: vec![0.5, -0.25, 0.0, 0.125] };
    let s0 = [false; 4];
    // F29: beta = 0, two spin updates per step
    parity_case(&ring, 0.0, Some(2), Some(3), &s0, 2000, 0xF29);
    // controls (oracle ok): odd count at beta = 0; even count at beta = 1/8 (energy not constant)
    parity_case(&ring, 0.0, Some(3), Some(3), &s0, 2000, 0xF29);
    parity_case(&ring, 0.125, Some(2), Some(3), &s0, 2000, 0xF29);
}

/// regression for fix aaa8c52 (was finding F18): a graph without edges (biases only); the edge move is a no-op
fn mode_regress_noedges() {
    let m = Model { edges: vec![], biases: vec![0.5, -0.25] };
    for (k, basic) in [(1u64, true), (1, false), (0, true)] {
        let t = if basic { 2 } else { 3 };
        for ne in [None, Some(3)] {
            traj_case(&m, 1.0, false, None, ne, None, basic, &[false, true], 2, vec![u8_word(k, t)], 7 + k);
            traj_case(&m, 1.0, true, None, ne, None, basic, &[false, true], 2, vec![u8_word(k, t)], 9 + k);
        }
    }
}

/// regression for fix 696e024 (was finding F13): importance sampling on graphs whose signed J sum is <= 0
/// (used to panic in gen_range(0.0..total)), and with all J = 0 (falls back to uniform selection)
fn mode_regress_imp() {
    let graphs: Vec<Vec<(Edge, f64)>> = vec![
        vec![((0, 1), -1.0)],
        vec![((0, 1), 1.0), ((1, 2), -1.0)],
        vec![((0, 1), -1.0), ((1, 2), -0.5), ((2, 0), 1.0)],
        vec![((0, 1), 0.0), ((1, 2), 0.0)],
        vec![((0, 1), -0.25), ((1, 2), 0.0), ((2, 0), -1.5), ((0, 1), 0.5)],
    ];
    for (i, edges) in graphs.into_iter().enumerate() {
        let n = 3;
        let m = Model { edges, biases: vec![0.25, 0.0, -0.5] };
        for seed in 0..4u64 {
            traj_case(&m, 0.5, true, None, Some(3), None, true, &[false, true, seed % 2 == 0], 3, vec![u8_word(1, 2)], 100 * i as u64 + seed);
        }
        // measured table boundaries (distinct pairs only)
        if i < 3 {
            let input = format!("imp {} {}", m.show_edges(), n);
            let mm = m.clone();
            let r = catch(move || {
                let mut bounds = vec![];
                for k in 0..mm.edges.len().saturating_sub(1) {
                    let sel = |w: u64| -> usize {
                        let (s, _, _) = one_move(&Model { edges: mm.edges.clone(), biases: vec![0.0; n] }, 0.0, true, 1, &vec![false; n], &[u8_word(1, 3), w, 0]);
                        mm.edges.iter().position(|((a, b), _)| (0..s.len()).all(|i| s[i] == (i == *a || i == *b))).expect("flipped pair is an edge")
                    };
                    let (mut lo, mut hi) = (0u64, u64::MAX);
                    if sel(0) > k {
                        hi = 0;
                    }
                    while hi > lo && hi - lo > 1 {
                        let mid = lo + (hi - lo) / 2;
                        if sel(mid) > k {
                            hi = mid
                        } else {
                            lo = mid
                        }
                    }
                    bounds.push(hi as f64 / 18446744073709551616.0);
                }
                bounds
            });
            match r {
                Ok(b) => {
                    let out = if b.is_empty() { "-".to_string() } else { b.iter().map(|x| format!("~{:e}", x)).collect::<Vec<_>>().join(" ") };
                    emit(true, &input, &out, Some(Ok(())))
                }
                Err(p) => emit(true, &input, "P", Some(Err(format!("edge move with importance sampling panicked: {}", p)))),
            }
        }
    }
}

// ------------------------------------------------------------------------------------------------
// api: random interleavings of every public call of GraphState; after every call the energy reported
// by get_energy() (asked twice) must be the direct sum over edges and biases of the state read back
// through state_ref().
//   ops: W<bits> new_with_state_and_rng | N new (random state from the rng) | E get_energy | Q clone_state
//        S<bits> set_state | T:<ns>:<ne>:<nw>:<basic> do_time_step | I0/I1 enable_edge_importance_sampling
//        C clone (continue with the clone) | D Debug formatting | G get_state(self) (last op)
// ------------------------------------------------------------------------------------------------
fn api_case(m: &Model, beta: f64, ops: &[String], seed: u64) {
    let rng = Shared::recording(vec![], seed);
    let handle = rng.clone();
    let mm = m.clone();
    let opsv = ops.to_vec();
    let r = catch(move || {
        let mut outs: Vec<String> = vec![];
        let mut oracle: Result<(), String> = Ok(());
        let mut g: Option<GraphState<Shared>> = None;
        let mut rng = Some(rng);
        let parse_bits = |t: &str| -> Vec<bool> { t.chars().map(|c| c == '1').collect() };
        let popt = |t: &str| -> Option<usize> { if t == "-" { None } else { Some(t.parse().unwrap()) } };
        for (k, op) in opsv.iter().enumerate() {
            let (head, rest) = op.split_at(1);
            match head {
                "W" => g = Some(GraphState::new_with_state_and_rng(parse_bits(rest), &mm.edges, &mm.biases, rng.take().unwrap())),
                "N" => g = Some(GraphState::new(&mm.edges, &mm.biases, rng.take().unwrap())),
                "E" => {
                    let _ = g.as_ref().unwrap().get_energy();
                }
                "Q" => {
                    let _ = g.as_ref().unwrap().clone_state();
                }
                "S" => g.as_mut().unwrap().set_state(parse_bits(rest)),
                "T" => {
                    let f: Vec<&str> = rest.split(':').collect();
                    g.as_mut().unwrap().do_time_step(beta, popt(f[1]), popt(f[2]), popt(f[3]), Some(f[4] == "1")).unwrap();
                }
                "I" => g.as_mut().unwrap().enable_edge_importance_sampling(rest == "1"),
                "C" => {
                    let c = g.as_ref().unwrap().clone();
                    g = Some(c);
                }
                "D" => {
                    let _ = format!("{:?}", g.as_ref().unwrap());
                }
                "G" => {
                    let st = g.take().unwrap().get_state();
                    outs.push(format!("{} -", bits(&st)));
                    continue;
                }
                _ => panic!("bad op"),
            }
            let gr = g.as_ref().unwrap();
            let st = gr.state_ref().to_vec();
            let e1 = gr.get_energy();
            let e2 = gr.get_energy();
            let d = mm.direct_energy(&st);
            if oracle.is_ok() {
                if st.len() != mm.n() {
                    oracle = Err(format!("after op {} ({}): {} spins instead of {}", k, op, st.len(), mm.n()));
                } else if (e1 - d).abs() > 1e-9 * mm.escale() || (e2 - d).abs() > 1e-9 * mm.escale() {
                    oracle = Err(format!("after op {} ({}): get_energy() = {} (asked again: {}) but the direct sum over edges and biases of the state read back ({}) is {}", k, op, e1, e2, bits(&st), d));
                }
            }
            outs.push(format!("{} {}", bits(&st), rat(e1)));
        }
        (outs, oracle)
    });
    let words = handle.log();
    let input = format!("api {} {} {} {}", m.show(), rat(beta), ops.join(","), list(&words));
    match r {
        Ok((outs, oracle)) => emit(true, &input, &format!("{} ok", outs.join(" ")), Some(oracle)),
        Err(p) => emit(true, &input, "PANIC", Some(Err(format!("panicked: {}", p)))),
    }
}

fn mode_api(a: &Args, g: &mut SplitMix64) {
    let ncases = if a.thorough { 8000 } else { 800 };
    for _ in 0..ncases {
        let n = 2 + g.below(4) as usize;
        let shape = g.below(7);
        let (m, _) = gen_model_iso(g, n, shape);
        let beta = g.dyadic(0, 2, 8);
        let mut ops: Vec<String> = vec![if g.chance(1, 4) { "N".to_string() } else { format!("W{}", bits(&rand_state(g, n))) }];
        let len = 3 + g.below(10);
        for _ in 0..len {
            let op = match g.below(12) {
                0 | 1 => "E".to_string(),
                2 | 3 | 4 => format!("S{}", bits(&rand_state(g, n))),
                5 | 6 => {
                    let cnt = |g: &mut SplitMix64| -> String { if g.chance(1, 3) { "-".into() } else { g.below(4).to_string() } };
                    format!("T:{}:{}:{}:{}", cnt(g), cnt(g), cnt(g), g.below(2))
                }
                7 => format!("I{}", g.below(2)),
                8 => "C".to_string(),
                9 => "D".to_string(),
                10 => "Q".to_string(),
                _ => "E".to_string(),
            };
            stat(&format!("api_op_{}", &op[..1]), 1);
            ops.push(op);
        }
        if g.chance(1, 4) {
            ops.push("G".to_string());
        }
        api_case(&m, beta, &ops, g.next());
    }
}

/// `util::vec_help::remove_doubles` through the cfg(qmc_verif) wrapper: on a sorted list a value is kept
/// (once) iff it occurs an odd number of times — this is the set of net-flipped sites of a worm.
fn mode_helpers(a: &Args, g: &mut SplitMix64) {
    use qmc::sse::qmc_traits::rvb::verif_hooks::verif_remove_doubles;
    let mut lists: Vec<Vec<usize>> = vec![vec![]];
    // every multiplicity pattern 0..5 for up to three distinct values
    for a0 in 0..=5usize {
        for a1 in 0..=5usize {
            for a2 in 0..=5usize {
                let mut v = vec![];
                v.extend(std::iter::repeat(1usize).take(a0));
                v.extend(std::iter::repeat(4usize).take(a1));
                v.extend(std::iter::repeat(7usize).take(a2));
                lists.push(v);
            }
        }
    }
    for _ in 0..(if a.thorough { 2000 } else { 200 }) {
        let mut v: Vec<usize> = (0..g.below(12)).map(|_| g.below(5) as usize).collect();
        v.sort_unstable();
        lists.push(v);
    }
    for v in lists {
        let vv = v.clone();
        let r = catch(move || verif_remove_doubles(vv));
        let input = format!("rd {}", list(&v));
        match r {
            Ok(out) => {
                let mut want = vec![];
                let mut i = 0;
                while i < v.len() {
                    let mut j = i;
                    while j < v.len() && v[j] == v[i] {
                        j += 1;
                    }
                    if (j - i) % 2 == 1 {
                        want.push(v[i]);
                    }
                    i = j;
                }
                let oracle = if out == want { Ok(()) } else { Err(format!("remove_doubles({}) = {} but the values of odd multiplicity are {}", list(&v), list(&out), list(&want))) };
                emit(v.len() >= 2, &input, &list(&out), Some(oracle));
            }
            Err(p) => emit(true, &input, "PANIC", Some(Err(format!("panicked: {}", p)))),
        }
    }
}

fn main() {
    quiet_panics();
    let a = args();
    let mut g = SplitMix64::new(a.seed ^ 0xC19);
    match a.mode.as_str() {
        "traj" => mode_traj(&a, &mut g),
        "thr" => mode_thr(&a, &mut g),
        "imp" => mode_imp(&a, &mut g),
        "helpers" => mode_helpers(&a, &mut g),
        "api" => mode_api(&a, &mut g),
        "kern" => mode_kern(&a, &mut g),
        "kernworm" => mode_kern_worm(&a, &mut g),
        "search-worm" => mode_search_worm(&a, &mut g),
        "witness-worm" => mode_witness_worm(),
        "regress-imp" => mode_regress_imp(),
        "witness-asym" => mode_witness_asym(),
        "witness-tiny" => mode_witness_tiny(),
        "witness-parity" => mode_witness_parity(),
        "regress-noedges" => mode_regress_noedges(),
        m => panic!("unknown mode {}", m),
    }
}
