//! Shared pieces of the correspondence harness: scripted / recording RNG, a generator PRNG,
//! exact rational printing of f64, and the `CASE` line protocol.
//!
//! Line protocol (one case per line, consumed by /verif/checks/common.py):
//!   CASE <nontrivial 0|1> | <kind> <input tokens…> | <output tokens…> [| <oracle verdict>]
//! The Lean driver receives `<kind> <input tokens…>` and must print `<output tokens…>`.
//! Tokens starting with `~` are reals compared with tolerance; a model token `?` marks a tie.
//! The optional 4th field is the implementation-side oracle: `ok` or `FAIL:<reason>`; it is
//! computed from the real code only (never from the model).

use rand::{Error, RngCore};
use std::io::Write;

/// SplitMix64: generator PRNG (all random choices of a run derive from one state).
#[derive(Clone, Debug, serde::Serialize, serde::Deserialize, PartialEq, Eq)]
pub struct SplitMix64 {
    pub s: u64,
}
impl SplitMix64 {
    pub fn new(seed: u64) -> Self {
        Self { s: seed }
    }
    pub fn next(&mut self) -> u64 {
        self.s = self.s.wrapping_add(0x9E3779B97F4A7C15);
        let mut z = self.s;
        z = (z ^ (z >> 30)).wrapping_mul(0xBF58476D1CE4E5B9);
        z = (z ^ (z >> 27)).wrapping_mul(0x94D049BB133111EB);
        z ^ (z >> 31)
    }
    /// uniform in 0..n (n>0), tiny modulo bias is irrelevant for generation
    pub fn below(&mut self, n: u64) -> u64 {
        self.next() % n
    }
    pub fn range(&mut self, lo: i64, hi_incl: i64) -> i64 {
        lo + (self.below((hi_incl - lo + 1) as u64) as i64)
    }
    pub fn coin(&mut self) -> bool {
        self.next() >> 63 == 1
    }
    pub fn chance(&mut self, num: u64, den: u64) -> bool {
        self.below(den) < num
    }
    /// dyadic rational k/den with lo*den <= k <= hi*den
    pub fn dyadic(&mut self, lo: i64, hi: i64, den: i64) -> f64 {
        self.range(lo * den, hi * den) as f64 / den as f64
    }
    pub fn pick<'a, T>(&mut self, xs: &'a [T]) -> &'a T {
        &xs[self.below(xs.len() as u64) as usize]
    }
}
/// SplitMix64 is also usable as an `Rng` for the library (serialisable, clonable).
impl RngCore for SplitMix64 {
    fn next_u32(&mut self) -> u32 {
        (self.next() >> 32) as u32
    }
    fn next_u64(&mut self) -> u64 {
        self.next()
    }
    fn fill_bytes(&mut self, dest: &mut [u8]) {
        for chunk in dest.chunks_mut(8) {
            let w = self.next().to_le_bytes();
            chunk.copy_from_slice(&w[..chunk.len()]);
        }
    }
    fn try_fill_bytes(&mut self, dest: &mut [u8]) -> Result<(), Error> {
        self.fill_bytes(dest);
        Ok(())
    }
}

/// Recording / scripted RNG: words come from `script` first, then from a SplitMix64 fallback;
/// every word handed to the library is appended to `log`, so the model can replay the exact
/// draw sequence. `next_u32` is the high half of one word (one word per call).
#[derive(Clone, Debug)]
pub struct RecRng {
    pub script: Vec<u64>,
    pub pos: usize,
    pub fallback: SplitMix64,
    pub log: Vec<u64>,
}
impl RecRng {
    pub fn new(seed: u64) -> Self {
        Self {
            script: vec![],
            pos: 0,
            fallback: SplitMix64::new(seed),
            log: vec![],
        }
    }
    pub fn scripted(script: Vec<u64>, seed: u64) -> Self {
        Self {
            script,
            pos: 0,
            fallback: SplitMix64::new(seed),
            log: vec![],
        }
    }
    pub fn take_log(&mut self) -> Vec<u64> {
        std::mem::take(&mut self.log)
    }
    fn word(&mut self) -> u64 {
        let w = if self.pos < self.script.len() {
            self.script[self.pos]
        } else {
            self.fallback.next()
        };
        self.pos += 1;
        self.log.push(w);
        RECLOG.with(|l| l.borrow_mut().push(w));
        w
    }
}
thread_local! {
    /// Mirror of every word any `RecRng` of this thread handed out (for RNGs owned by a sampler,
    /// whose own `.log` is not reachable through the public API).
    static RECLOG: std::cell::RefCell<Vec<u64>> = std::cell::RefCell::new(Vec::new());
}
/// Take (and clear) the thread-wide mirror log of `RecRng` draws.
pub fn reclog_take() -> Vec<u64> {
    RECLOG.with(|l| std::mem::take(&mut *l.borrow_mut()))
}
impl RngCore for RecRng {
    fn next_u32(&mut self) -> u32 {
        (self.word() >> 32) as u32
    }
    fn next_u64(&mut self) -> u64 {
        self.word()
    }
    fn fill_bytes(&mut self, dest: &mut [u8]) {
        for chunk in dest.chunks_mut(8) {
            let w = self.word().to_le_bytes();
            chunk.copy_from_slice(&w[..chunk.len()]);
        }
    }
    fn try_fill_bytes(&mut self, dest: &mut [u8]) -> Result<(), Error> {
        self.fill_bytes(dest);
        Ok(())
    }
}

/// Exact rational `num/den` of a finite f64 (every finite double is dyadic). `nan`/`inf` literal otherwise.
pub fn rat(x: f64) -> String {
    if x.is_nan() {
        return "nan".into();
    }
    if x.is_infinite() {
        return if x > 0.0 { "inf".into() } else { "-inf".into() };
    }
    if x == 0.0 {
        return "0/1".into();
    }
    let bits = x.to_bits();
    let sign = if bits >> 63 == 1 { "-" } else { "" };
    let exp = ((bits >> 52) & 0x7ff) as i64;
    let frac = bits & ((1u64 << 52) - 1);
    let (mut m, mut e) = if exp == 0 {
        (frac as u128, -1074i64)
    } else {
        ((frac | (1u64 << 52)) as u128, exp - 1075)
    };
    while m % 2 == 0 && e < 0 {
        m /= 2;
        e += 1;
    }
    if e >= 0 {
        // may overflow u128 for huge values; generators never produce those
        if e < 60 {
            format!("{}{}/1", sign, m << e)
        } else {
            format!("{}{}e2^{}/1", sign, m, e)
        }
    } else if e > -127 {
        format!("{}{}/{}", sign, m, 1u128 << (-e))
    } else {
        // tiny: print as m/2^k symbolic; model side parses "2^k"
        format!("{}{}/2^{}", sign, m, -e)
    }
}

pub fn bits(bs: &[bool]) -> String {
    if bs.is_empty() {
        "-".into()
    } else {
        bs.iter().map(|b| if *b { '1' } else { '0' }).collect()
    }
}

pub fn list<T: std::fmt::Display>(xs: &[T]) -> String {
    if xs.is_empty() {
        "-".into()
    } else {
        xs.iter()
            .map(|x| x.to_string())
            .collect::<Vec<_>>()
            .join(",")
    }
}

pub fn rats(xs: &[f64]) -> String {
    if xs.is_empty() {
        "-".into()
    } else {
        xs.iter().map(|x| rat(*x)).collect::<Vec<_>>().join(",")
    }
}

/// Emit one case line.
pub fn emit(nontrivial: bool, input: &str, output: &str, oracle: Option<Result<(), String>>) {
    let out = std::io::stdout();
    let mut o = out.lock();
    let nt = if nontrivial { 1 } else { 0 };
    match oracle {
        None => writeln!(o, "CASE {} | {} | {}", nt, input, output).unwrap(),
        Some(Ok(())) => writeln!(o, "CASE {} | {} | {} | ok", nt, input, output).unwrap(),
        Some(Err(e)) => writeln!(
            o,
            "CASE {} | {} | {} | FAIL:{}",
            nt,
            input,
            output,
            e.replace('|', "/").replace('\n', " ")
        )
        .unwrap(),
    }
}

/// A histogram / note line for the evidence (input distribution).
pub fn stat(key: &str, val: impl std::fmt::Display) {
    println!("STAT {} {}", key, val);
}

/// Run `f`, catching panics; returns Err(message) on panic.
pub fn catch<T>(f: impl FnOnce() -> T) -> Result<T, String> {
    let r = std::panic::catch_unwind(std::panic::AssertUnwindSafe(f));
    r.map_err(|e| {
        if let Some(s) = e.downcast_ref::<&str>() {
            s.to_string()
        } else if let Some(s) = e.downcast_ref::<String>() {
            s.clone()
        } else {
            "panic".to_string()
        }
    })
}

pub fn quiet_panics() {
    std::panic::set_hook(Box::new(|_| {}));
}

/// Common CLI: `<bin> <mode> [--seed S] [--tier quick|thorough] [--replay FILE]`
pub struct Args {
    pub mode: String,
    pub seed: u64,
    pub thorough: bool,
    pub replay: Option<String>,
}
pub fn args() -> Args {
    let a: Vec<String> = std::env::args().collect();
    let mut mode = String::from("all");
    let mut seed = std::env::var("VERIF_SEED")
        .ok()
        .and_then(|s| s.parse::<u64>().ok())
        .unwrap_or(1);
    let mut thorough = std::env::var("VERIF_TIER").map(|t| t == "thorough").unwrap_or(false);
    let mut replay = None;
    let mut i = 1;
    while i < a.len() {
        match a[i].as_str() {
            "--seed" => {
                seed = a[i + 1].parse().unwrap();
                i += 1;
            }
            "--tier" => {
                thorough = a[i + 1] == "thorough";
                i += 1;
            }
            "--replay" => {
                replay = Some(a[i + 1].clone());
                i += 1;
            }
            m => mode = m.to_string(),
        }
        i += 1;
    }
    Args {
        mode,
        seed,
        thorough,
        replay,
    }
}

// ---------------------------------------------------------------------------------------------
// Operator-string encoding shared with QmcModel/Basic.lean (`Proto.showSlots`):
//   L<cutoff>:p@bond;vars;ins;outs;D|O;const+...
// ---------------------------------------------------------------------------------------------
use qmc::sse::qmc_traits::{Hamiltonian, Op, OpContainer};

pub fn show_op<O: Op>(op: &O) -> String {
    format!(
        "{};{};{};{};{};{}",
        op.get_bond(),
        list(op.get_vars()),
        bits(op.get_inputs()),
        bits(op.get_outputs()),
        if op.is_diagonal() { "D" } else { "O" },
        op.is_constant() as u8
    )
}

pub fn show_slots<M: OpContainer>(m: &M) -> String {
    let l = m.get_cutoff();
    let ops: Vec<String> = (0..l)
        .filter_map(|p| m.get_pth(p).map(|op| format!("{}@{}", p, show_op(op))))
        .collect();
    format!("L{}:{}", l, ops.join("+"))
}

/// One bond of a table Hamiltonian: variables, constant flag, full matrix indexed by
/// (outputs ++ inputs) msb first (like `Interaction`), length 4^k.
#[derive(Clone, Debug)]
pub struct TableBond {
    pub vars: Vec<usize>,
    pub constant: bool,
    pub mat: Vec<f64>,
}

/// A harness-defined `Hamiltonian` with explicit weight tables.
#[derive(Clone, Copy, Debug)]
pub struct TableHam<'a> {
    pub bonds: &'a [TableBond],
}

pub fn bit_index<'b>(it: impl Iterator<Item = &'b bool>) -> usize {
    it.fold(0usize, |a, b| a * 2 + (*b as usize))
}

impl<'a> Hamiltonian<'a> for TableHam<'a> {
    fn hamiltonian(&self, _vars: &[usize], bond: usize, inputs: &[bool], outputs: &[bool]) -> f64 {
        self.bonds[bond].mat[bit_index(outputs.iter().chain(inputs.iter()))]
    }
    fn edge_fn(&self, bond: usize) -> (&'a [usize], bool) {
        (&self.bonds[bond].vars, self.bonds[bond].constant)
    }
    fn num_bonds(&self) -> usize {
        self.bonds.len()
    }
}

/// `nbonds!vars:const:mat!vars:const:mat…` (mat as exact rationals) — parsed by `Proto.parseHam`.
pub fn show_table_ham(bonds: &[TableBond]) -> String {
    let parts: Vec<String> = bonds
        .iter()
        .map(|b| format!("{}:{}:{}", list(&b.vars), b.constant as u8, rats(&b.mat)))
        .collect();
    format!("H{}!{}", bonds.len(), parts.join("!"))
}

/// Independent re-implementation of "propagate and check" (not `verify()`): returns the
/// propagated final state or the first p at which an op does not meet its inputs.
pub fn propagate_check<M: OpContainer>(m: &M, state: &[bool]) -> Result<Vec<bool>, usize> {
    let mut s = state.to_vec();
    for p in 0..m.get_cutoff() {
        if let Some(op) = m.get_pth(p) {
            for (k, v) in op.get_vars().iter().enumerate() {
                if s[*v] != op.get_inputs()[k] {
                    return Err(p);
                }
            }
            for (k, v) in op.get_vars().iter().enumerate() {
                s[*v] = op.get_outputs()[k];
            }
        }
    }
    Ok(s)
}
