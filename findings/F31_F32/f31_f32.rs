//! F31 (C16): Qmc::make_*interaction* accept a variable index >= nvars; the sampler panics later inside a sweep.
//! F32 (C15/C16): into_qmc of an Ising sampler, then one more VALID interaction, then timesteps: the carried-over
//! operator container's per-bond counter table is too short and an insertion panics (index out of bounds).
use qmc::sse::*;
use rand::prelude::*;
use std::panic::{catch_unwind, AssertUnwindSafe};

#[test]
fn f31_out_of_range_variable_is_rejected_or_sampled() {
    let rng = SmallRng::seed_from_u64(1);
    let mut q = DefaultQmc::<SmallRng>::new(2, rng, false);
    q.make_interaction(vec![1.0, 1.0, 1.0, 1.0], vec![0]).unwrap();
    q.make_interaction(vec![1.0, 1.0, 1.0, 1.0], vec![1]).unwrap();
    let r = q.make_diagonal_interaction(vec![1.0, 2.0], vec![5]);
    if r.is_err() {
        return; // rejected with an error: fine
    }
    let res = catch_unwind(AssertUnwindSafe(|| {
        for _ in 0..200 {
            q.timestep(1.0);
        }
    }));
    assert!(res.is_ok(), "an ACCEPTED interaction (variable 5 of 2) made the sampler panic");
}

#[test]
fn f32_interaction_added_after_conversion_can_be_sampled() {
    for (h, extra) in [(0.5f64, 1usize), (0.0, 5)] {
        let edges = vec![((0, 1), 1.0), ((1, 2), -1.0), ((2, 3), 1.0)];
        let rng = SmallRng::seed_from_u64(3);
        let mut g = DefaultQmcIsingGraph::<SmallRng>::new_with_rng(edges, 0.75, h, 4, rng, None);
        g.timesteps(50, 1.0);
        let mut q = g.into_qmc();
        for k in 0..extra {
            q.make_diagonal_interaction(vec![0.5, 1.5], vec![k % 4]).unwrap();
        }
        let res = catch_unwind(AssertUnwindSafe(|| {
            for _ in 0..300 {
                q.timestep(1.0);
            }
        }));
        assert!(res.is_ok(), "h = {}: {} valid interaction(s) added after into_qmc made the sampler panic", h, extra);
    }
}
