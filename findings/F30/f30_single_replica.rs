#![cfg(feature = "parallel-tempering")]
//! F29 witness (C13): a container holding exactly ONE replica. `tempering_step` returns at once,
//! `parallel_tempering_step` draws the phase-order coin from the container rng. After a second replica
//! is added, the serial and the thread-parallel driver no longer make the same swap decisions.
use qmc::sse::*;
use rand::prelude::*;

type TC = DefaultTemperingContainer<SmallRng, SmallRng>;

fn replica(i: u64) -> DefaultQmcIsingGraph<SmallRng> {
    let edges = vec![((0, 1), 1.0), ((1, 2), 1.0), ((2, 3), 1.0), ((3, 0), 1.0)];
    DefaultQmcIsingGraph::<SmallRng>::new_with_rng(edges, 0.5, 0., 4, SmallRng::seed_from_u64(100 + i), None)
}

fn fingerprint(tc: &TC) -> Vec<(Vec<bool>, usize)> {
    tc.graph_ref().iter().map(|(g, _)| (g.state_ref().to_vec(), g.get_n())).collect()
}

#[test]
fn serial_equals_parallel_after_single_replica_phase() {
    let mut serial: TC = new_with_rng(SmallRng::seed_from_u64(7));
    serial.add_qmc_stepper(replica(0), 1.0).unwrap();
    let mut parallel = serial.clone();
    // one replica: a tempering step of either driver
    serial.tempering_step();
    parallel.parallel_tempering_step();
    // now a second replica on both
    serial.add_qmc_stepper(replica(1), 1.5).unwrap();
    parallel.add_qmc_stepper(replica(1), 1.5).unwrap();
    for step in 0..200 {
        serial.timesteps(1);
        serial.tempering_step();
        parallel.parallel_timesteps(1);
        parallel.parallel_tempering_step();
        assert_eq!(serial.get_total_swaps(), parallel.get_total_swaps(), "swap counts differ at step {}", step);
        assert_eq!(fingerprint(&serial), fingerprint(&parallel), "replicas differ at step {}", step);
    }
}
