#!/bin/sh
# setup_cmd: build the Lean project (model, proofs, property theorems, drivers) and the Rust
# harness against /repo's working tree, offline, from files on disk only.
set -e
cd "$(dirname "$0")"
export CARGO_NET_OFFLINE=true
mkdir -p .cache evidence replays
( cd lean && lake build && lake build $(grep -E '^name = "drv_' lakefile.toml | sed 's/name = "\(.*\)"/\1/') )
( cd harness && RUSTFLAGS="--cfg qmc_verif --cap-lints warn" CARGO_TARGET_DIR=/verif/.cache/target cargo build --offline --quiet --bins )
echo "setup ok"
