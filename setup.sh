#!/bin/sh
# setup_cmd: build the Lean targets (model, proofs, property theorems, drivers) and the Rust
# harness bins needed by the checks claimed in MANIFEST.json, offline, from files on disk only.
set -e
cd "$(dirname "$0")"
export CARGO_NET_OFFLINE=true
mkdir -p .cache evidence replays
./check --setup
echo "setup ok"
